#!/bin/bash
# usage: tools_mutants.sh <seeded-id> <check-id> [more check ids]  : applies seeded/<id>/patch.diff to /repo, runs the quick checks, undoes it.
set -u
sid=$1; shift
cd /verif
if ! git -C /repo diff --quiet; then echo "REPO DIRTY"; exit 2; fi
if ! git -C /repo apply --check /verif/seeded/$sid/patch.diff 2>/dev/null; then echo "PATCH DOES NOT APPLY: $sid"; exit 2; fi
git -C /repo apply /verif/seeded/$sid/patch.diff
for c in "$@"; do
  out=$(timeout 900 ./check $c --tier quick 2>&1 | grep -v conda | grep "^VIOLATION\|^violation\|^KNOWN\|^$c \|HARNESS" | cut -c1-300)
  echo "== seeded/$sid vs $c"; echo "$out"
done
git -C /repo checkout -- .
