#!/bin/bash
# usage: tools_mutants.sh <seeded-id> <check-id>...  : builds a scratch worktree of /repo HEAD + seeded/<id>/patch.diff,
# runs the quick checks against it (VERIF_REPO), removes the worktree.  (Equivalent to applying the patch to /repo, without
# disturbing other runs.)
set -u
sid=$1; shift
wt=/tmp/mut_$sid
git -C /repo worktree remove --force $wt >/dev/null 2>&1
git -C /repo worktree add -q $wt HEAD || exit 2
if ! git -C $wt apply /verif/seeded/$sid/patch.diff; then echo "PATCH DOES NOT APPLY: $sid"; git -C /repo worktree remove --force $wt; exit 2; fi
cd /verif
for c in "$@"; do
  out=$(VERIF_REPO=$wt timeout 900 ./check $c --tier quick 2>&1 | grep -v conda | grep "^VIOLATION\|^violation\|^KNOWN\|^$c \|HARNESS" | cut -c1-260)
  echo "== seeded/$sid vs $c"; echo "$out"
done
git -C /repo worktree remove --force $wt
