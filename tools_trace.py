#!/venv/bin/python
"""Replay a doc step by step printing outcomes (debugging aid)."""
import os, sys, json, warnings
os.environ.setdefault("MODELX_VERIF", "1")
sys.path.insert(0, '/verif'); sys.path.insert(0, os.environ.get("VERIF_REPO", "/repo"))
warnings.simplefilter("ignore")
import modelx
warnings.showwarning = lambda *a, **k: None
from mxsim import machine
d = json.load(open(sys.argv[1]))
m = machine.Machine(d["seed"], d["cfg"])
import traceback
for s in d["steps"]:
    if s["op"] == "checkpoint":
        print("checkpoint"); continue
    out = m.do(s)
    print(s["op"], {k: v for k, v in s.items() if k not in ("formula", "op", "src")}, "->", out)
    if out.get("st") == "rej" and "-v" in sys.argv:
        try:
            getattr(m.world, "op_" + s["op"])(__import__("mxsim.world").world.prepare(s))
        except Exception:
            traceback.print_exc()
if "-t" in sys.argv:
    from mxsim import history
    tw, bad = history.build_twin(m.edits, "T")
    print("twin bad:", bad)
    for s in m.edits[-3:]:
        print("edit:", {k: v for k, v in s.items() if k not in ("formula",)})
    q = d["detail"]["query"]
    print("live", m.world.apply(q)); print("twin", tw.apply(q))
    print("live2", m.world.apply(q)); print("twin2", tw.apply(q))
