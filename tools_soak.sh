#!/bin/bash
# usage: tools_soak.sh <seed> <budget_s> <lanes> <check ids...> : one thorough-style pass per check, summary lines only
seed=$1; budget=$2; lanes=$3; shift 3
for c in "$@"; do
  out=$(VERIF_SEED=$seed VERIF_BUDGET_S=$budget VERIF_LANES=$lanes VERIF_MAX_SIGS=8 timeout $((budget*4+600)) ./check $c --tier thorough 2>&1 | grep -v conda)
  echo "== $c seed=$seed"; echo "$out" | grep "^VIOLATION\|^violation\|HARNESS\|^$c \|note:" | cut -c1-420
done
