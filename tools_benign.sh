#!/bin/bash
# usage: tools_benign.sh <worktree with a behaviour-preserving refactor applied> <budget_s> <check ids...>
# Runs checks against that tree (VERIF_REPO). Any VIOLATION here is a candidate false alarm (or a bug in the refactor).
wt=$1; budget=$2; shift 2
cd /verif
for c in "$@"; do
  out=$(VERIF_REPO=$wt VERIF_BUDGET_S=$budget timeout 1200 ./check $c --tier quick 2>&1 | grep -v conda | grep "^VIOLATION\|^violation\|^$c \|HARNESS\|harness" | cut -c1-300)
  echo "== $wt vs $c"; echo "$out"
done
