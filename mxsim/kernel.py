"""mxsim kernel: seeds, fork-per-run lanes, aggregation, evidence, replay, minimiser.

One run = one forked child started from the pristine post-import parent.
A run is a pure function of (run seed, code); a replay of (replay file, code).
"""
import os, sys, json, time, hashlib, select, signal, traceback, gc, errno, shutil, ctypes

VERIF = os.path.dirname(os.path.dirname(os.path.abspath(__file__)))
EXIT_OK, EXIT_VIOLATION, EXIT_HARNESS = 0, 1, 3


# --------------------------------------------------------------------------
# scratch space: one directory per invocation under /dev/shm (fallback: the default temp dir),
# removed on exit; stale ones of killed invocations are removed on the next start.

def scratch_root():
    base = "/dev/shm" if os.path.isdir("/dev/shm") and os.access("/dev/shm", os.W_OK) else None
    if base is None:
        import tempfile
        base = tempfile.gettempdir()
    return base


SCRATCH = os.environ.get("MXSIM_SCRATCH")


def init_scratch():
    global SCRATCH
    root = scratch_root()
    for n in os.listdir(root):
        if n.startswith("mxverif-"):
            try:
                pid = int(n.split("-")[1])
                os.kill(pid, 0)
            except (ValueError, IndexError):
                continue
            except ProcessLookupError:
                shutil.rmtree(os.path.join(root, n), ignore_errors=True)
            except PermissionError:
                pass
    SCRATCH = os.path.join(root, "mxverif-%d" % os.getpid())
    os.makedirs(SCRATCH, exist_ok=True)
    os.environ["MXSIM_SCRATCH"] = SCRATCH
    import atexit
    me = os.getpid()
    atexit.register(lambda: os.getpid() == me and shutil.rmtree(SCRATCH, ignore_errors=True))
    return SCRATCH


def run_dir(tag):
    """A fresh private directory for one run (removed by the caller or with the scratch root)."""
    d = os.path.join(SCRATCH or init_scratch(), "%s-%d" % (tag, os.getpid()))
    shutil.rmtree(d, ignore_errors=True)
    os.makedirs(d)
    return d


# --------------------------------------------------------------------------
# seeds

def h64(*parts):
    s = "/".join(str(p) for p in parts)
    return int.from_bytes(hashlib.blake2b(s.encode(), digest_size=8).digest(), "big")


def run_seed(base_seed, prop_id, tier, index):
    return h64(base_seed, prop_id, tier, index)


def digest_events(events):
    h = hashlib.blake2b(digest_size=12)
    for e in events:
        h.update(e.encode() if isinstance(e, str) else repr(e).encode())
        h.update(b"\n")
    return h.hexdigest()


# --------------------------------------------------------------------------
# process plumbing

_libc = None


def _pdeathsig():
    global _libc
    try:
        if _libc is None:
            _libc = ctypes.CDLL("libc.so.6", use_errno=True)
        _libc.prctl(1, signal.SIGKILL)  # PR_SET_PDEATHSIG
    except Exception:
        pass


def _write_all(fd, data):
    view = memoryview(data)
    while view:
        n = os.write(fd, view)
        view = view[n:]


def run_child(fn, timeout_s):
    """Run fn() in a forked child; return its JSON-able result dict.

    Outcomes: the dict returned by fn; {"harness_error": tb};
    {"timeout": s}; {"crashed": signum}.
    """
    r, w = os.pipe()
    pid = os.fork()
    if pid == 0:
        code = 0
        try:
            os.close(r)
            _pdeathsig()
            signal.signal(signal.SIGTERM, signal.SIG_DFL)
            try:
                out = fn()
            except BaseException:
                out = {"harness_error": traceback.format_exc()[-4000:]}
            try:
                data = json.dumps(out, default=repr).encode()
            except BaseException:
                data = json.dumps({"harness_error": "unserialisable result: " + traceback.format_exc()[-2000:]}).encode()
            _write_all(w, data)
        except BaseException:
            code = 1
        finally:
            os._exit(code)
    os.close(w)
    chunks = []
    deadline = time.monotonic() + timeout_s
    timed_out = False
    while True:
        left = deadline - time.monotonic()
        if left <= 0:
            timed_out = True
            break
        rl, _, _ = select.select([r], [], [], min(left, 1.0))
        if rl:
            b = os.read(r, 1 << 16)
            if not b:
                break
            chunks.append(b)
    os.close(r)
    if timed_out:
        try:
            os.kill(pid, signal.SIGKILL)
        except OSError:
            pass
        os.waitpid(pid, 0)
        return {"timeout": timeout_s}
    _, status = os.waitpid(pid, 0)
    if os.WIFSIGNALED(status):
        return {"crashed": os.WTERMSIG(status)}
    data = b"".join(chunks)
    if not data:
        return {"harness_error": "child exited %r with no result" % (status,)}
    try:
        return json.loads(data)
    except Exception as e:
        return {"harness_error": "unparsable child result: %r" % (e,)}


def _lane_main(lane, nlanes, work, wfd, deadline, timeout_s):
    """work: callable(index)->fn or None when exhausted."""
    _pdeathsig()
    cur = {"pid": None}
    signal.signal(signal.SIGTERM, lambda *a: os._exit(0))
    idx = lane
    f = os.fdopen(wfd, "w", buffering=1)
    while time.time() < deadline:
        fn = work(idx)
        if fn is None:
            break
        t0 = time.time()
        res = run_child(fn, timeout_s)
        res["index"] = idx
        res["wall"] = round(time.time() - t0, 4)
        try:
            f.write(json.dumps(res, default=repr) + "\n")
        except BrokenPipeError:
            break
        idx += nlanes
    f.close()
    os._exit(0)


def run_lanes(work, nlanes, budget_s, timeout_s, on_result):
    """Drive `work` over indexes 0,1,2,... on nlanes lanes until budget or exhaustion.

    on_result(res) may return True to request an early stop.
    """
    deadline = time.time() + budget_s
    lanes = {}
    for lane in range(nlanes):
        r, w = os.pipe()
        pid = os.fork()
        if pid == 0:
            os.close(r)
            for fd in [x[0] for x in lanes.values()]:
                try:
                    os.close(fd)
                except OSError:
                    pass
            _lane_main(lane, nlanes, work, w, deadline, timeout_s)
        os.close(w)
        lanes[pid] = (r, b"")
    fds = {r: pid for pid, (r, _) in lanes.items()}
    bufs = {r: b"" for r in fds}
    stop = False
    hard_deadline = deadline + timeout_s + 30
    while fds:
        if time.time() > hard_deadline:
            break
        rl, _, _ = select.select(list(fds), [], [], 1.0)
        for r in rl:
            b = os.read(r, 1 << 16)
            if not b:
                pid = fds.pop(r)
                os.close(r)
                try:
                    os.waitpid(pid, 0)
                except ChildProcessError:
                    pass
                continue
            bufs[r] += b
            while b"\n" in bufs[r]:
                line, bufs[r] = bufs[r].split(b"\n", 1)
                try:
                    res = json.loads(line)
                except Exception as e:
                    res = {"harness_error": "bad lane line %r" % (e,)}
                if on_result(res):
                    stop = True
        if stop:
            break
    for r, pid in list(fds.items()):
        try:
            os.kill(pid, signal.SIGTERM)
        except OSError:
            pass
    for r, pid in list(fds.items()):
        try:
            os.close(r)
        except OSError:
            pass
        try:
            os.waitpid(pid, 0)
        except ChildProcessError:
            pass


# --------------------------------------------------------------------------
# known findings

def load_known():
    p = os.path.join(VERIF, "known_findings.json")
    if not os.path.exists(p):
        return []
    with open(p) as f:
        return json.load(f).get("findings", [])


def known_match(prop_id, sig, known):
    for k in known:
        if k.get("status") == "open" and k["property"] == prop_id and sig_matches(k["signature"], sig):
            return k
    return None


def sig_matches(pattern, sig):
    """A known-finding signature is an exact signature or a prefix ending in '*'."""
    if pattern.endswith("*"):
        return sig.startswith(pattern[:-1])
    return pattern == sig


# --------------------------------------------------------------------------
# minimiser (ddmin over doc["steps"], candidates evaluated in parallel children)

def _eval_candidates(prop, docs, sig, timeout_s, nlanes):
    """Return index of first candidate (in order) that reproduces sig, else None."""
    results = {}

    def work(i):
        if i >= len(docs):
            return None
        d = docs[i]
        return lambda: prop.replay(d)

    def on_result(res):
        results[res["index"]] = res
        return False

    run_lanes(work, min(nlanes, max(1, len(docs))), 600, timeout_s, on_result)
    for i in range(len(docs)):
        r = results.get(i)
        if r and r.get("sig") == sig and not r.get("ok", True):
            return i
    return None


def minimise(prop, doc, sig, timeout_s=60, nlanes=16, max_rounds=60, log=None):
    steps = list(doc["steps"])

    def mk(s):
        d = dict(doc)
        d["steps"] = s
        return d

    n = 2
    rounds = 0
    while len(steps) >= 2 and rounds < max_rounds:
        rounds += 1
        chunk = max(1, len(steps) // n)
        cands = []
        for i in range(0, len(steps), chunk):
            cands.append(steps[:i] + steps[i + chunk:])
        cands = [c for c in cands if len(c) < len(steps)]
        hit = _eval_candidates(prop, [mk(c) for c in cands], sig, timeout_s, nlanes)
        if hit is not None:
            steps = cands[hit]
            n = max(n - 1, 2)
            if log:
                log("minimise: %d steps" % len(steps))
        else:
            if chunk == 1:
                break
            n = min(len(steps), n * 2)
    d = mk(steps)
    # property-specific simplifications
    simp = getattr(prop, "simplify", None)
    if simp:
        for _ in range(20):
            cands = list(simp(d))
            if not cands:
                break
            hit = _eval_candidates(prop, cands, sig, timeout_s, nlanes)
            if hit is None:
                break
            d = cands[hit]
    return d


# --------------------------------------------------------------------------
# driver

class Aggregate:
    def __init__(self):
        self.runs = 0
        self.steps = 0
        self.sim_s = 0.0
        self.stats = {}
        self.digests_nt = set()
        self.digests = set()
        self.nontrivial = 0
        self.samples = []
        self.violations = []      # (sig, res)
        self.harness = []
        self.seeds = []
        self.reach = {}

    def add(self, res):
        self.runs += 1
        self.steps += res.get("steps", 0)
        self.sim_s += res.get("sim_s", 0.0)
        for k, v in (res.get("stats") or {}).items():
            if isinstance(v, dict):
                d = self.stats.setdefault(k, {})
                for kk, vv in v.items():
                    d[kk] = d.get(kk, 0) + vv
            else:
                self.stats[k] = self.stats.get(k, 0) + v
        dg = res.get("digest")
        if dg:
            self.digests.add(dg)
            if res.get("nontrivial"):
                self.nontrivial += 1
                self.digests_nt.add(dg)
        if res.get("sample") is not None and len(self.samples) < 4:
            self.samples.append(res["sample"])


def _repo_state(repo):
    import subprocess
    try:
        head = subprocess.run(["git", "-C", repo, "rev-parse", "--short", "HEAD"], capture_output=True, text=True, timeout=20).stdout.strip()
        dirty = subprocess.run(["git", "-C", repo, "status", "--porcelain", "--untracked-files=no"], capture_output=True, text=True, timeout=20).stdout.strip()
        return {"path": repo, "head": head, "working_tree_modified": bool(dirty)}
    except Exception as e:
        return {"path": repo, "error": repr(e)}


def write_evidence(prop, tier, seed, agg, wall, extra_cov=None, violations=0):
    cov = {
        "evaluations": agg.runs,
        "distinct_nontrivial": len(agg.digests_nt),
        "rule": prop.rule,
        "samples": agg.samples[:4] or ["(no sample recorded)"],
        "runs_per_hour": int(agg.runs / wall * 3600) if wall > 0 else 0,
        "steps_executed": agg.steps,
        "simulated_seconds": round(agg.sim_s, 3),
        "distinct_event_log_digests": len(agg.digests),
        "nontrivial_runs": agg.nontrivial,
        "counters": agg.stats,
        "real_components": getattr(prop, "real", "all of modelx (core, serialize, export as used), networkx, pickle, zipfile, pandas, tmpfs files"),
        "simulated_components": getattr(prop, "simulated", "order of API calls (seeded scheduler), injected faults (probe / fs shim), clock, GC timing, temp names, Impl hashing (hook H1)"),
        "harness_errors": len(agg.harness),
        "exhaustive": False,
    }
    if extra_cov:
        cov.update(extra_cov)
    ev = {
        "property_id": prop.id,
        "tier": tier,
        "seed": int(seed),
        "level": prop.level,
        "coverage": cov,
        "assumptions": list(getattr(prop, "assumptions", [])),
        "wall_s": round(wall, 2),
        "violations": violations,
    }
    repo = os.environ.get("VERIF_REPO") or "/repo"
    cov["repo_checked"] = _repo_state(repo)
    edir = os.path.join(VERIF, "evidence")
    if os.path.realpath(repo) != "/repo":
        # a run against a scratch copy (seeded change) never overwrites the evidence of the real tree
        edir = os.path.join(scratch_root(), "evidence-other-tree")
    os.makedirs(edir, exist_ok=True)
    p = os.path.join(edir, prop.id + ".json")
    tmp = p + ".tmp"
    with open(tmp, "w") as f:
        json.dump(ev, f, indent=1, default=repr)
    os.replace(tmp, p)
    return p


def classify(res):
    if "harness_error" in res:
        return "harness"
    if "timeout" in res:
        return "timeout"
    if "crashed" in res:
        return "crashed"
    return "ok" if res.get("ok", False) else "violation"


def do_replay(prop, path, timeout_s=120):
    with open(path) as f:
        doc = json.load(f)
    res = run_child(lambda: prop.replay(doc), timeout_s)
    c = classify(res)
    if c == "crashed" and getattr(prop, "crash_is_violation", False):
        res = {"ok": False, "sig": prop.id + "/interpreter-crashed", "detail": "child killed by signal %s" % res["crashed"]}
        c = "violation"
    return doc, res, c


def check_main(prop, args):
    tier = args.tier
    base_seed = args.seed
    nlanes = args.lanes
    t0 = time.time()
    init_scratch()
    known = load_known()

    if args.replay:
        doc, res, c = do_replay(prop, args.replay)
        if c == "violation":
            k = known_match(prop.id, res.get("sig", ""), known)
            print("replay: sig=%s detail=%s" % (res.get("sig"), json.dumps(res.get("detail"), default=repr)[:1500]))
            if res.get("digest"):
                print("replay: digest=%s" % res["digest"])
            for e in res.get("events_tail") or []:
                print("replay: event: %s" % e)
            if k and not args.strict:
                print("KNOWN-FINDING: property=%s %s" % (prop.id, k["description"]))
                return EXIT_OK
            print("VIOLATION property=%s replay=%s" % (prop.id, args.replay))
            return EXIT_VIOLATION
        if c == "ok":
            print("replay: no violation (digest=%s)" % res.get("digest"))
            return EXIT_OK
        print("HARNESS-ERROR replay %s: %s" % (c, json.dumps(res)[:2000]))
        return EXIT_HARNESS

    cfg = prop.tiers[tier]
    budget = float(os.environ.get("VERIF_BUDGET_S", cfg["budget_s"]))
    max_runs = int(os.environ.get("VERIF_MAX_RUNS", cfg.get("max_runs", 10 ** 9)))
    timeout_s = cfg.get("timeout_s", 120)
    agg = Aggregate()
    sigs = {}
    state = {"known_hits": {}}

    def work(idx):
        if idx >= max_runs:
            return None
        seed = run_seed(base_seed, prop.id, tier, idx)
        return lambda: prop.run_one(seed, tier, idx)

    def on_result(res):
        c = classify(res)
        if c in ("harness", "timeout"):
            agg.harness.append(res)
            return len(agg.harness) >= 5
        if c == "crashed":
            if getattr(prop, "crash_is_violation", False):
                res = {"ok": False, "sig": prop.id + "/interpreter-crashed", "index": res.get("index"),
                       "detail": "child killed by signal %s" % res["crashed"], "doc": None}
                c = "violation"
            else:
                agg.harness.append(res)
                return len(agg.harness) >= 5
        agg.add(res)
        if c == "violation":
            sig = res.get("sig", "?")
            if sig not in sigs:
                sigs[sig] = res
            unknown = [s for s in sigs if not known_match(prop.id, s, known)]
            return len(unknown) >= int(os.environ.get('VERIF_MAX_SIGS', '3'))
        return False

    # 1. witnesses of open known findings are always replayed
    exit_code = EXIT_OK
    for k in known:
        if k["property"] != prop.id or k.get("status") != "open":
            continue
        wpath = os.path.join(VERIF, k["witness"])
        doc, res, c = do_replay(prop, wpath)
        if c == "violation" and sig_matches(k["signature"], res.get("sig", "")):
            print("KNOWN-FINDING: property=%s %s" % (prop.id, k["description"]))
            state["known_hits"][k["signature"]] = True
        elif c == "violation":
            print("note: witness %s now fails differently: %s" % (k["witness"], res.get("sig")))
            sigs.setdefault(res.get("sig"), dict(res, doc=doc))
        elif c == "ok":
            print("note: witness %s of known finding no longer reproduces" % k["witness"])
        else:
            agg.harness.append(res)

    # 1b. regression replays: histories that once violated the property on /repo (defects since repaired) must pass
    import glob as _glob
    nreg = 0
    for wpath in sorted(_glob.glob(os.path.join(VERIF, "regressions", prop.id + "-*.json"))):
        doc, res, c = do_replay(prop, wpath)
        nreg += 1
        if c == "violation":
            print("note: regression replay %s fails again: %s" % (os.path.relpath(wpath, VERIF), res.get("sig")))
            sigs.setdefault(res.get("sig"), dict(res, doc=doc))
        elif c != "ok":
            agg.harness.append(res)
    state["regression_replays"] = nreg

    # 2. deterministic part (enumerations), then seeded search
    run_lanes(work, nlanes, budget, timeout_s, on_result)
    wall = time.time() - t0

    # 3. report
    new_violations = 0
    for sig, res in sigs.items():
        k = known_match(prop.id, sig, known)
        if k:
            if not state["known_hits"].get(k["signature"]):
                print("KNOWN-FINDING: property=%s %s" % (prop.id, k["description"]))
                state["known_hits"][k["signature"]] = True
            continue
        new_violations += 1
        doc = res.get("doc")
        path = None
        if doc:
            doc = dict(doc)
            doc["expect_sig"] = sig
            if not args.no_minimise and doc.get("steps"):
                try:
                    doc = minimise(prop, doc, sig, nlanes=nlanes, log=lambda m: print(m, file=sys.stderr))
                except Exception:
                    traceback.print_exc()
            doc["detail"] = res.get("detail")
            os.makedirs(os.path.join(VERIF, "replays"), exist_ok=True)
            path = os.path.join(VERIF, "replays", "%s-%s-%s.json" % (
                prop.id, doc.get("seed", 0), hashlib.blake2b(sig.encode(), digest_size=4).hexdigest()))
            with open(path, "w") as f:
                json.dump(doc, f, indent=1, default=repr)
            # the replay file must reproduce, twice, in fresh children
            ok2 = 0
            for _ in range(2):
                _, r2, c2 = do_replay(prop, path)
                if c2 == "violation" and r2.get("sig") == sig:
                    ok2 += 1
            if ok2 < 2:
                print("note: replay of %s reproduced %d/2 times" % (path, ok2))
        print("violation: sig=%s index=%s detail=%s" % (sig, res.get("index"), json.dumps(res.get("detail"), default=repr)[:1200]))
        print("VIOLATION property=%s replay=%s" % (prop.id, path or "(none: interpreter crash at index %s, seed %s)" % (res.get("index"), base_seed)))
        exit_code = EXIT_VIOLATION

    reach_missing = [r for r in getattr(prop, "reach_probes", []) if not _get_stat(agg.stats, r)]
    extra = {"reach_probes_zero": reach_missing, "lanes": nlanes, "budget_s": budget,
             "first_run_seed": run_seed(base_seed, prop.id, tier, 0),
             "regression_replays_passed": state.get("regression_replays", 0)}
    extra.update(getattr(prop, "extra_coverage", lambda agg: {})(agg))
    write_evidence(prop, tier, base_seed, agg, wall, extra, violations=new_violations)
    print("%s %s: runs=%d nontrivial=%d distinct_nontrivial=%d steps=%d wall=%.1fs runs/h=%d harness_errors=%d" % (
        prop.id, tier, agg.runs, agg.nontrivial, len(agg.digests_nt), agg.steps, wall,
        int(agg.runs / wall * 3600) if wall else 0, len(agg.harness)))
    if reach_missing:
        print("note: reach probes at zero: %s" % reach_missing)
    if agg.harness:
        print("HARNESS-ERROR (%d): %s" % (len(agg.harness), json.dumps(agg.harness[0])[:3000]))
        if exit_code == EXIT_OK and (len(agg.harness) >= 5 or agg.runs == 0):
            return EXIT_HARNESS
    if agg.runs == 0 and exit_code == EXIT_OK:
        print("HARNESS-ERROR no run completed")
        return EXIT_HARNESS
    return exit_code


def _get_stat(stats, dotted):
    cur = stats
    for part in dotted.split("/"):
        if not isinstance(cur, dict) or part not in cur:
            return 0
        cur = cur[part]
    return cur
