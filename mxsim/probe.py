"""The probe: harness functions bound as model-level references and called by every generated formula.

P(_space, name, point, *args) logs one probe hit and raises the planned fault if the armed plan says so.
R(_space, name, *args, value) passes `value` through, or returns None on command.
Sites are keyed by (space path, cells name, point, args) and per-site occurrence, never by global hit index.
"""

LOG = []            # (path, name, pt, args)
PLAN = None         # FaultPlan or None
CLOCK = [0.0]


class InjectedError(Exception):
    pass


EXC = {
    "ValueError": ValueError, "ZeroDivisionError": ZeroDivisionError, "KeyError": KeyError,
    "InjectedError": InjectedError, "MemoryError": MemoryError, "RecursionError": RecursionError,
    "KeyboardInterrupt": KeyboardInterrupt, "TypeError": TypeError, "AttributeError": AttributeError,
}
LAST_RAISED = [None]
RAISED = []            # every injected exception object of the current evaluation, in the order of firing


def space_path(space):
    """Public path of a space: A, A.U, A[1, 2].U - never the internal auto-name of ItemSpaces."""
    parts = []
    s = space
    while s is not None and s.parent is not None:
        av = getattr(s, "argvalues", None) if s._is_root() else None
        if av is not None:
            parts.append("[" + ", ".join(repr(a) for a in av) + "]")
            parts.append("")    # marker: no dot before an item segment
        else:
            parts.append("." + s.name)
        s = s.parent
    out = ""
    for p in reversed(parts):
        out += p
    return out.lstrip(".")


def _path_exported(space):
    """Path of a space object of an exported (modelx-free) package: _parent/_name; ItemSpace roots by their parameters."""
    import inspect
    parts = []
    s = space
    while getattr(s, "_parent", None) is not None:
        par = s._parent
        is_root = bool(getattr(s, "_mx_roots", None)) and s._mx_roots[-1] is s
        if is_root:
            names = [n for n in inspect.signature(type(par).__call__).parameters if n != "self"]
            parts.append("[" + ", ".join(repr(getattr(s, n)) for n in names) + "]")
        else:
            parts.append("." + s._name)
        s = par
    return "".join(reversed(parts)).lstrip(".")


def _path(space):
    if hasattr(space, "_mx_spaces"):
        return _path_exported(space)
    parts = []
    s = space
    while s.parent is not None:
        if s._is_root():
            parts.append("[" + ", ".join(repr(a) for a in s.argvalues) + "]")
        else:
            parts.append("." + s.name)
        s = s.parent
    return "".join(reversed(parts)).lstrip(".")


class FaultPlan:
    """faults: list of {"site": [path, name, pt, args], "occ": n, "exc": class name}
    nones: list of {"site": [path, name, args], "occ": n}
    """
    def __init__(self, faults=(), nones=()):
        self.faults = {}
        for f in faults:
            s = f["site"]
            self.faults[(s[0], s[1], s[2], tuple(s[3]), f.get("occ", 0))] = f["exc"]
        self.nones = {}
        for f in nones:
            s = f["site"]
            self.nones[(s[0], s[1], tuple(s[2]), f.get("occ", 0))] = True
        self.occ = {}
        self.nocc = {}
        self.fired = []

    def check(self, site):
        n = self.occ.get(site, 0)
        self.occ[site] = n + 1
        exc = self.faults.get(site + (n,))
        if exc:
            self.fired.append((site, exc))
        return exc

    def check_none(self, site):
        n = self.nocc.get(site, 0)
        self.nocc[site] = n + 1
        hit = self.nones.get(site + (n,))
        if hit:
            self.fired.append((site, "None"))
        return hit


def P(space, name, pt, *args):
    site = (_path(space), name, pt, tuple(_freeze(a) for a in args))
    LOG.append(site)
    if PLAN is not None:
        exc = PLAN.check(site)
        if exc:
            e = EXC[exc]("injected at %r" % (site,))
            LAST_RAISED[0] = e
            RAISED.append(e)
            raise e
    return 0


def R(space, name, *rest):
    value = rest[-1]
    if PLAN is not None:
        site = (_path(space), name, tuple(_freeze(a) for a in rest[:-1]))
        if PLAN.check_none(site):
            return None
    return value


def _freeze(a):
    if isinstance(a, list):
        return tuple(_freeze(x) for x in a)
    return a


class Bomb:
    """A reference value whose pickling (dump) or unpickling (load) fails on command: the pickling operation as the point of
    failure of a save or a load."""
    ARM = {"dump": 0, "load": 0}
    FIRED = {"dump": 0, "load": 0}

    def __init__(self, tag=0):
        self.tag = tag

    def __reduce__(self):
        if Bomb.ARM["dump"] > 0:
            Bomb.ARM["dump"] -= 1
            Bomb.FIRED["dump"] += 1
            raise InjectedError("injected pickling failure")
        return (_unbomb, (self.tag,))

    def __eq__(self, other):
        return isinstance(other, Bomb) and other.tag == self.tag

    def __hash__(self):
        return hash(("Bomb", self.tag))

    def __repr__(self):
        return "Bomb(%r)" % (self.tag,)


def _unbomb(tag):
    if Bomb.ARM["load"] > 0:
        Bomb.ARM["load"] -= 1
        Bomb.FIRED["load"] += 1
        raise InjectedError("injected unpickling failure")
    return Bomb(tag)


def neg(x):
    """A harness function used to shadow a builtin name (abs) with a different behaviour."""
    return -x - 1000


def big(*a):
    """Shadows max/min."""
    return 7919 + len(a)


def reset():
    del LOG[:]
    global PLAN
    PLAN = None
    LAST_RAISED[0] = None
    del RAISED[:]
    Bomb.ARM.update(dump=0, load=0)
    Bomb.FIRED.update(dump=0, load=0)


def arm(plan):
    global PLAN
    PLAN = plan
