"""World: one real modelx model driven through its public API by symbolic operations."""
import gc
import modelx as mx
from modelx.core.errors import FormulaError, DeletedObjectError
from . import probe, grammar


def seglist(loc):
    if isinstance(loc, str):
        return [s for s in loc.split(".") if s]
    return list(loc)


_MODELX_ERRORS = ("DeletedObjectError", "FormulaError", "DeepReferenceError", "NoneReturnedError")


def exc_name(e):
    """Class name of an exception as the checks record it: the nearest built-in (or documented modelx) class in its MRO,
    so that a more specific subclass raised by another version of the library is the same outcome."""
    for k in type(e).__mro__:
        if k.__module__ == "builtins" or k.__name__ in _MODELX_ERRORS or k.__module__.startswith("mxsim"):
            return k.__name__
    return type(e).__name__


def library_self_check(obj=None):
    """Run modelx's own internal consistency check if this version has one.

    Returns None (passed or not available) or the AssertionError / exception it raised.  The self-check is private API:
    a tree without it is not a violation of anything.

    One assertion of it is wrong on its own terms: `ModelImpl._check_sanity` demands that the value of every model-level
    reference is tracked by id, but modelx objects (spaces, cells, the model) bound to a reference are by design never
    tracked, so `m.x = m.A` alone makes it fail.  When a model holds such a reference, the parts of the self-check other
    than that loop are run instead, and the loop is applied to the values that are meant to be tracked.
    """
    import modelx as mx
    from modelx.core.base import Interface
    sysm = mx.core.mxsys
    target = obj if obj is not None else sysm
    chk = getattr(target, "_check_sanity", None)
    if chk is None:
        return None
    try:
        impls = list(sysm.models.values()) if target is sysm else ([target] if hasattr(target, "global_refs") else [])
        objval = [mi for mi in impls if any(isinstance(r.interface, Interface) for n, r in mi.global_refs.items() if n != "__builtins__")]
    except Exception:
        impls, objval = [], []
    try:
        if not objval:
            chk()
        else:
            if target is sysm:
                sysm.iomanager._check_sanity()
            for mi in impls:
                if mi in objval:
                    for n, r in mi.global_refs.items():
                        if n != "__builtins__" and not isinstance(r.interface, Interface):
                            assert id(r.interface) in mi.refmgr._valid_to_refs
                    mi.refmgr._check_sanity()
                    mi.spmgr._check_sanity()
                else:
                    mi._check_sanity()
    except AssertionError as e:
        return e
    except AttributeError:
        return None         # another layout of the private parts: not available
    except Exception as e:
        return e
    return None


def left_executing():
    """Is any formula still marked as executing?  Reads modelx's private executor state (the property names it: call stack,
    pending reference reads, the executing flag); a part that another version of the library does not have is skipped."""
    import modelx as mx
    sysm = mx.core.mxsys
    ex = getattr(sysm, "executor", None)
    return bool(getattr(sysm, "callstack", None)) or bool(getattr(sysm, "refstack", None)) or bool(getattr(ex, "is_executing", False))


def norm(v):
    """Normalise a value for comparison and logging."""
    if isinstance(v, (int, float, str, bool)) or v is None:
        return v
    if isinstance(v, (list, tuple)):
        return [norm(x) for x in v]
    if isinstance(v, dict):
        return {str(k): norm(x) for k, x in v.items()}
    try:
        from modelx.core.base import Interface
        if isinstance(v, Interface):
            if not v._is_valid():
                return "<deleted %s>" % type(v).__name__
            return "<%s %s>" % (type(v).__name__, objpath(v))
    except Exception:
        pass
    if isinstance(v, probe.Bomb):
        return repr(v)
    if type(v).__name__ == "DataFrame":
        try:
            return "<DataFrame x=%s>" % [int(x) for x in v["x"]]
        except Exception:
            return "<DataFrame>"
    if callable(v) and hasattr(v, "__name__"):
        return "<fn %s>" % v.__name__
    return "<%s>" % type(v).__name__


def objpath(o):
    """Public dotted path of a space or cells (ItemSpaces by arguments)."""
    from modelx.core.cells import Cells
    from modelx.core.model import Model
    if isinstance(o, Model):
        return ""
    if isinstance(o, Cells):
        p = probe._path(o.parent)
        return (p + "." if p else "") + o.name
    return probe._path(o)


class World:
    def __init__(self, name="M", with_probe=True):
        self.m = mx.new_model(name)
        self.name = self.m.name
        if with_probe:
            self.m.P = probe.P
            self.m.R = probe.R
        self.handles = {}

    # ---- locating --------------------------------------------------------
    def space(self, loc):
        cur = self.m
        for seg in seglist(loc):
            if isinstance(seg, str):
                cur = cur.spaces[seg] if seg in cur.spaces else _raise(KeyError(seg))
            else:
                args = seg[1]
                cur = cur(*args) if (len(seg) > 2 and seg[2] == "call") else cur[tuple(args) if len(args) != 1 else args[0]]
        return cur

    def has_space(self, loc):
        try:
            self.space(loc)
            return True
        except Exception:
            return False

    def value(self, vs):
        t = vs["t"]
        if t in ("int", "str", "float"):
            return vs["v"]
        if t == "list":
            return list(vs["v"])
        if t == "tuple":
            return tuple(vs["v"])
        if t == "none":
            return None
        if t == "fn":
            return getattr(probe, vs["v"])
        if t == "bomb":
            return probe.Bomb(vs["v"])
        if t == "frame":
            import pandas as pd
            return pd.DataFrame({"x": list(vs["v"])})
        if t == "obj":
            s = self.space(vs["space"]) if vs.get("space") else self.m
            if vs.get("cells"):
                return s.cells[vs["cells"]]
            return s
        raise ValueError(t)

    # ---- applying --------------------------------------------------------
    def apply(self, op):
        """Returns {"st": "ok"|"rej", "exc":..., "val":...}.  Never raises for modelx-side errors."""
        k = op["op"]
        try:
            fn = getattr(self, "op_" + k)
        except AttributeError:
            raise ValueError("unknown op %s" % k)
        op = prepare(op)     # harness-side rendering: errors here are harness errors, not rejections
        try:
            val = fn(op)
            return {"st": "ok", "val": norm(val)}
        except FormulaError:
            err = mx.get_error()
            return {"st": "rej", "exc": exc_name(err) if err is not None else "FormulaError", "wrapped": True}
        except BaseException as e:
            if isinstance(e, (SystemExit,)):
                raise
            return {"st": "rej", "exc": exc_name(e), "msg": str(e)[:200]}

    # editor
    def op_new_space(self, op):
        parent = self.space(op["parent"]) if op.get("parent") else self.m
        bases = [self.space(b) for b in op.get("bases") or []]
        kw = {}
        if bases:
            kw["bases"] = bases
        if op.get("formula") is not None:
            kw["formula"] = op["sfsrc"]
        if op.get("refs"):
            kw["refs"] = dict(op["refs"])
        parent.new_space(op["name"], **kw)

    def op_del_space(self, op):
        segs = seglist(op["space"])
        parent = self.space(segs[:-1]) if len(segs) > 1 else self.m
        if op.get("how") == "delitem":
            del parent.spaces[segs[-1]]
        else:
            delattr(parent, segs[-1])

    def op_copy_space(self, op):
        """Space.copy into the model under a new name; an accepted copy is deleted again at once (the operation is offered
        for its rejections: the definitions are the same before and after either way)."""
        src = self.space(op["space"])
        block = op.get("block")
        if block:
            # a model-level reference named like one of the cells to be copied (legal shadowing), for the time of the copy:
            # that cells cannot be created in the new space, so the copy stops after the cells before it
            setattr(self.m, block, 5)
        try:
            src.copy(self.m, op["name"])
            delattr(self.m, op["name"])
        finally:
            if block:
                delattr(self.m, block)

    def op_rename_space(self, op):
        self.space(op["space"]).rename(op["new"])

    def op_add_bases(self, op):
        self.space(op["space"]).add_bases(*[self.space(b) for b in op["bases"]])

    def op_remove_bases(self, op):
        self.space(op["space"]).remove_bases(*[self.space(b) for b in op["bases"]])

    def op_set_sformula(self, op):
        self.space(op["space"]).formula = bad_formula_object(op["badobj"]) if op.get("badobj") else op["sfsrc"]

    def op_del_sformula(self, op):
        del self.space(op["space"]).formula

    def op_new_cells(self, op):
        src = op.get("src")
        if op.get("badobj"):
            self.space(op["space"]).new_cells(op["name"], formula=bad_formula_object(op["badobj"]))
            return
        if op.get("autoname") and src and src.lstrip().startswith("def %s(" % op["name"]):
            # no explicit name: the cells is named after its def formula
            self.space(op["space"]).new_cells(formula=src, is_cached=op.get("is_cached", True))
            return
        self.space(op["space"]).new_cells(op["name"], formula=src, is_cached=op.get("is_cached", True))

    def op_del_cells(self, op):
        s = self.space(op["space"])
        if op.get("how") == "delitem":
            del s.cells[op["name"]]
        else:
            delattr(s, op["name"])

    def op_rename_cells(self, op):
        self.space(op["space"]).cells[op["name"]].rename(op["new"])

    def op_set_formula(self, op):
        self.space(op["space"]).cells[op["name"]].formula = bad_formula_object(op["badobj"]) if op.get("badobj") else op["src"]

    def op_del_formula(self, op):
        del self.space(op["space"]).cells[op["name"]].formula

    def op_set_cached(self, op):
        self.space(op["space"]).cells[op["name"]].is_cached = op["v"]

    def op_set_allow_none(self, op):
        t = self._target(op)
        t.allow_none = op["v"]

    def op_set_doc(self, op):
        t = self._target(op)
        t.doc = op["v"]

    def _target(self, op):
        s = self.space(op["space"]) if op.get("space") else self.m
        if op.get("name"):
            return s.cells[op["name"]]
        return s

    def op_set_ref(self, op):
        s = self.space(op["space"]) if op.get("space") else self.m
        v = self.value(op["value"])
        if op.get("pandas_path"):
            # the value is bound together with a PandasData spec (a file of its own inside the saved model)
            s.new_pandas(op["name"], op["pandas_path"], v, file_type="csv")
            return
        if op.get("mode") and op.get("space"):
            s.set_ref(op["name"], v, refmode=op["mode"])
        else:
            setattr(s, op["name"], v)

    def op_del_ref(self, op):
        s = self.space(op["space"]) if op.get("space") else self.m
        delattr(s, op["name"])

    # value-setter
    def op_set_value(self, op):
        s = self.space(op["space"])
        c = s.cells[op["name"]]
        args = tuple(op["args"])
        how = op.get("how", "setitem")
        if how == "value":
            c.value = op["value"]
        elif how == "attr":
            setattr(s, op["name"], op["value"])
        else:
            c[args if len(args) != 1 else args[0]] = op["value"]

    def op_clear_at(self, op):
        c = self.space(op["space"]).cells[op["name"]]
        if op.get("how") == "delvalue":
            del c.value
        else:
            c.clear_at(*op["args"])

    def op_clear(self, op):
        self.space(op["space"]).cells[op["name"]].clear()

    def op_clear_all(self, op):
        self.space(op["space"]).cells[op["name"]].clear_all()

    def op_space_clear_all(self, op):
        self.space(op["space"]).clear_all()

    def op_space_clear_cells(self, op):
        self.space(op["space"]).clear_cells(clear_input=op.get("clear_input", False), recursive=op.get("recursive", True))

    def op_clear_items(self, op):
        self.space(op["space"]).clear_items()

    def op_del_item(self, op):
        s = self.space(op["space"])
        a = tuple(op["args"])
        if op.get("how") == "clear_at":
            s.clear_at(*a)
        else:
            del s[a if len(a) != 1 else a[0]]

    def op_model_clear_all(self, op):
        self.m.clear_all()

    def op_set_recalc(self, op):
        mx.set_recalc(op["v"])

    def op_gc(self, op):
        gc.collect()

    # evaluator
    def op_eval(self, op):
        s = self.space(op["loc"])
        c = s.cells[op["name"]]
        args = [self._arg(a) for a in op.get("args", [])]
        sp = op.get("spell", "pos")
        if sp == "kw":
            params = c.parameters
            if len(args) > len(params):
                return c(*args)        # surplus arguments: let modelx refuse them as it does positionally
            return c(**dict(zip(params, args)))
        if sp == "idx":
            return c[tuple(args) if len(args) != 1 else args[0]]
        if sp == "value":
            return c.value
        if sp == "attrcall":
            return getattr(s, op["name"])(*args)
        return c(*args)

    def _arg(self, a):
        return list(a) if isinstance(a, list) else a

    def op_get_item(self, op):
        s = self.space(op["space"])
        a = [self._arg(x) for x in op["args"]]
        sp = op.get("spell", "idx")
        if sp == "call":
            r = s(*a)
        elif sp == "kw":
            r = s(**dict(zip(s.parameters, a)))
        else:
            r = s[tuple(a) if len(a) != 1 else a[0]]
        return r

    # inspection helpers (not ops)
    def held(self, space, name):
        """dict(cells) with tuplized keys."""
        c = self.space(space).cells[name]
        impl_n = len(c.parameters)
        out = {}
        for k in list(c):
            key = k if (impl_n != 1) else (k,)
            out[tuple(key)] = norm(c[k])
        return out


def bad_formula_object(kind):
    """Things that are not source text and that modelx cannot take as a formula."""
    if kind == "int":
        return 42
    if kind == "builtin":
        return len
    if kind == "two-lambdas":
        pair = (lambda x: x, lambda x: x + 1)      # two lambdas on one source line: the source cannot be told apart
        return pair[0]
    if kind == "object":
        return object()
    raise ValueError(kind)


def prepare(op):
    k = op["op"]
    if k in ("new_cells", "set_formula") and "src" not in op and op.get("formula"):
        op = dict(op, src=grammar.render(op["name"], op["formula"]))
    if k in ("new_space", "set_sformula") and "sfsrc" not in op and op.get("formula") is not None:
        op = dict(op, sfsrc=grammar.render_space_formula(op["formula"]))
    return op


def _raise(e):
    raise e
