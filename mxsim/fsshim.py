"""File-system shim: numbers, logs and optionally fails every file-system call under a sandbox directory.

Real bytes go to a real tmpfs directory (zipfile, pickle, json and pandas run against the real thing);
the shim only decides which calls fail.  Calls outside the sandbox pass through untouched.
"""
import os, io, builtins, errno, tempfile, time, shutil

MUTATING = ("mkdir", "rename", "replace", "unlink", "rmdir", "rmtree", "open_w", "write", "close_w")


class Shim:
    def __init__(self, sandbox):
        self.sandbox = os.path.realpath(sandbox)
        self.log = []            # (n, op, relpath)
        self.nmut = 0            # mutating calls seen in the current window
        self.nall = 0
        self.plan = None         # {"at": k, "kind": "fail"|"torn"|"close"|"exdev"|"transient", "errno": name, "n": int}
        self.fired = []
        self.transient_left = {}
        self.clock = 0.0
        self.slept = 0
        self.installed = False
        self.orig = {}
        self.tmpseq = 0

    # ---- helpers -----------------------------------------------------------
    def inside(self, path):
        try:
            if isinstance(path, int):
                return False
            p = os.fspath(path)
            if isinstance(p, bytes):
                p = p.decode()
            p = os.path.abspath(p)
            return p == self.sandbox or p.startswith(self.sandbox + os.sep)
        except Exception:
            return False

    def rel(self, path):
        p = os.path.abspath(os.fspath(path))
        return os.path.relpath(p, self.sandbox)

    def window(self, plan=None):
        """Start a new counting window (one save or one load)."""
        self.nmut = 0
        self.nall = 0
        # a private copy: the transient kind records its key in the plan, which must not leak into the step / replay doc
        self.plan = {k: v for k, v in plan.items() if k != "key"} if plan else None
        self.fired = []
        self.transient_left = {}

    def point(self, op, path):
        """Called at every mutating operation: returns the fault to inject now, or None."""
        k = self.nmut
        self.nmut += 1
        self.log.append((k, op, self.rel(path) if path is not None else "?"))
        pl = self.plan
        if not pl:
            return None
        if pl["kind"] == "transient":
            key = pl.get("key")
            if key is None and k == pl["at"]:
                pl["key"] = (op, self.rel(path))
                self.transient_left[pl["key"]] = pl.get("n", 1)
                key = pl["key"]
            if key == (op, self.rel(path)) and self.transient_left.get(key, 0) > 0:
                self.transient_left[key] -= 1
                self.fired.append((k, op, "transient"))
                return "transient"
            return None
        if k == pl["at"]:
            if pl["kind"] == "torn" and op not in ("write", "rmtree"):
                kind = "fail"
            elif pl["kind"] == "close" and op != "close_w":
                kind = "fail"
            elif pl["kind"] == "exdev" and op not in ("rename", "replace"):
                kind = "fail"
            else:
                kind = pl["kind"]
            self.fired.append((k, op, kind))
            return kind
        return None

    def err(self, kind="fail"):
        name = (self.plan or {}).get("errno", "ENOSPC")
        if kind == "transient":
            return PermissionError(errno.EACCES, "injected transient PermissionError")
        if kind == "exdev":
            return OSError(errno.EXDEV, "injected cross-device link")
        if name == "EACCES":
            return PermissionError(errno.EACCES, "injected")
        return OSError(getattr(errno, name), "injected " + name)

    # ---- install -----------------------------------------------------------
    def install(self):
        if self.installed:
            return
        self.installed = True
        sh = self
        o = self.orig
        for n in ("mkdir", "rename", "replace", "unlink", "remove", "rmdir"):
            o[n] = getattr(os, n)
        o["open"] = builtins.open
        o["io_open"] = io.open
        o["sleep"] = time.sleep
        o["tempdir"] = tempfile.tempdir
        o["names"] = tempfile._get_candidate_names

        def wrap1(name, op):
            orig = o[name]

            def f(path, *a, **k):
                if sh.inside(path) and not k.get("dir_fd"):
                    kind = sh.point(op, path)
                    if kind:
                        raise sh.err(kind)
                return orig(path, *a, **k)
            return f

        def wrap2(name, op):
            orig = o[name]

            def f(src, dst, *a, **k):
                if sh.inside(src) or sh.inside(dst):
                    kind = sh.point(op, dst if sh.inside(dst) else src)
                    if kind:
                        raise sh.err(kind)
                return orig(src, dst, *a, **k)
            return f

        os.mkdir = wrap1("mkdir", "mkdir")
        os.unlink = wrap1("unlink", "unlink")
        os.remove = wrap1("remove", "unlink")
        os.rmdir = wrap1("rmdir", "rmdir")
        os.rename = wrap2("rename", "rename")
        os.replace = wrap2("replace", "replace")

        # shutil.rmtree works through directory descriptors (os.unlink(name, dir_fd=...)), which the wrappers above let
        # through: the removal of a whole tree is one fault point of its own - fail before touching it, or (torn) after
        # removing part of it
        o["rmtree"] = shutil.rmtree

        def my_rmtree(path, ignore_errors=False, onerror=None, **k):
            if sh.inside(path):
                kind = sh.point("rmtree", path)
                if kind:
                    if kind == "torn" and os.path.isdir(path):
                        names = sorted(os.listdir(path))
                        for n in names[: max(1, len(names) // 2)]:
                            q = os.path.join(path, n)
                            if os.path.isdir(q) and not os.path.islink(q):
                                o["rmtree"](q, ignore_errors=True)
                            else:
                                try:
                                    o["unlink"](q)
                                except OSError:
                                    pass
                    if ignore_errors:
                        return None
                    raise sh.err("fail" if kind == "torn" else kind)
            return o["rmtree"](path, ignore_errors=ignore_errors, onerror=onerror, **k)
        shutil.rmtree = my_rmtree

        def my_open(file, mode="r", *a, **k):
            if isinstance(file, int) or not sh.inside(file):
                return o["io_open"](file, mode, *a, **k)
            writable = any(c in mode for c in "wax+")
            sh.nall += 1
            if writable:
                kind = sh.point("open_w", file)
                if kind:
                    raise sh.err(kind)
                return FileProxy(sh, o["io_open"](file, mode, *a, **k), file)
            return o["io_open"](file, mode, *a, **k)

        builtins.open = my_open
        io.open = my_open

        def my_sleep(s):
            sh.clock += s
            sh.slept += 1
        time.sleep = my_sleep

        tmp = os.path.join(self.sandbox, "tmp")
        o["mkdir"](tmp) if not os.path.isdir(tmp) else None
        tempfile.tempdir = tmp

        def names():
            while True:
                sh.tmpseq += 1
                yield "t%06d" % sh.tmpseq
        gen = names()
        tempfile._get_candidate_names = lambda: gen

    def uninstall(self):
        if not self.installed:
            return
        o = self.orig
        for n in ("mkdir", "rename", "replace", "unlink", "remove", "rmdir"):
            setattr(os, n, o[n])
        shutil.rmtree = o["rmtree"]
        builtins.open = o["open"]
        io.open = o["io_open"]
        time.sleep = o["sleep"]
        tempfile.tempdir = o["tempdir"]
        tempfile._get_candidate_names = o["names"]
        self.installed = False


class FileProxy:
    """Writable file whose write() and close() are fault points."""

    def __init__(self, shim, f, path):
        object.__setattr__(self, "_s", shim)
        object.__setattr__(self, "_f", f)
        object.__setattr__(self, "_p", path)
        object.__setattr__(self, "_closed", False)

    def write(self, data):
        kind = self._s.point("write", self._p)
        if kind == "torn":
            half = data[: max(0, len(data) // 2)]
            if half:
                self._f.write(half)
            raise self._s.err("fail")
        if kind:
            raise self._s.err(kind)
        return self._f.write(data)

    def close(self):
        if self._closed or self._f.closed:
            return self._f.close()
        object.__setattr__(self, "_closed", True)
        kind = self._s.point("close_w", self._p)
        if kind == "close":
            self._f.close()
            raise self._s.err("fail")
        if kind:
            try:
                self._f.close()
            finally:
                raise self._s.err(kind)
        return self._f.close()

    def __enter__(self):
        return self

    def __exit__(self, *exc):
        self.close()
        return False

    def __iter__(self):
        return iter(self._f)

    def __getattr__(self, name):
        return getattr(self._f, name)

    def __setattr__(self, name, value):
        setattr(self._f, name, value)
