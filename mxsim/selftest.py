"""Self-tests of the machinery: environment, and determinism of runs.

determinism: for each built property, run indexes 0..K-1 twice on different lane counts in this interpreter
and once more in a fresh interpreter under another PYTHONHASHSEED; event-log digests must be identical.
"""
import os, sys, json, subprocess, importlib, time
from . import kernel

PROPS = ["C01", "C02", "C03", "C04", "C05", "C06", "C07", "C08", "C09", "C10", "C11", "C12", "C13", "C14",
         "C15", "C16", "C17", "C18", "C19"]


def built():
    out = []
    for p in PROPS:
        if os.path.exists(os.path.join(os.path.dirname(__file__), "props", p.lower() + ".py")):
            out.append(p)
    return out


def digests(prop, tier, base_seed, k, lanes):
    res = {}

    def work(i):
        if i >= k:
            return None
        seed = kernel.run_seed(base_seed, prop.id, tier, i)
        return lambda: prop.run_one(seed, tier, i)

    def on_result(r):
        if "digest" in r:
            res[r["index"]] = (r["digest"], r.get("ok"), r.get("sig"))
        else:
            res[r.get("index")] = ("ERR", json.dumps(r)[:300], None)
        return False

    kernel.run_lanes(work, lanes, 600, 120, on_result)
    return res


def main(args):
    t0 = time.time()
    k = 24 if args.tier == "quick" else 200
    shm = "/dev/shm"
    if not (os.path.isdir(shm) and os.access(shm, os.W_OK)):
        print("note: /dev/shm not writable; sandboxes fall back to the default temp directory")
    only = os.environ.get("VERIF_SELFTEST_PROPS")
    props = only.split(",") if only else built()
    if os.environ.get("VERIF_SELFTEST_CHILD"):
        out = {}
        for pid in props:
            prop = importlib.import_module("mxsim.props." + pid.lower()).PROP
            d = digests(prop, "quick", args.seed, k, 5)
            out[pid] = {str(i): v[0] for i, v in d.items()}
        print("DIGESTS " + json.dumps(out))
        return 0
    bad = 0
    mine = {}
    for pid in props:
        prop = importlib.import_module("mxsim.props." + pid.lower()).PROP
        a = digests(prop, "quick", args.seed, k, 16)
        b = digests(prop, "quick", args.seed, k, 3)
        diff = [i for i in range(k) if a.get(i, ("?",))[0] != b.get(i, ("??",))[0] or a.get(i, ("ERR",))[0] == "ERR"]
        mine[pid] = {str(i): v[0] for i, v in a.items()}
        print("selftest %s: %d seeds x 2 lane counts, divergent=%s" % (pid, k, diff))
        if diff:
            bad += 1
            for i in diff[:3]:
                print("   index %d: %s vs %s" % (i, a.get(i), b.get(i)))
    env = dict(os.environ)
    env["VERIF_HASHSEED"] = "12345"
    env["PYTHONHASHSEED"] = "12345"
    env["VERIF_SELFTEST_CHILD"] = "1"
    env["VERIF_SELFTEST_PROPS"] = ",".join(props)
    chk = os.path.join(kernel.VERIF, "check")
    p = subprocess.run([chk, "selftest", "--tier", args.tier, "--seed", str(args.seed)], env=env, capture_output=True, text=True, timeout=1800)
    other = None
    for line in p.stdout.splitlines():
        if line.startswith("DIGESTS "):
            other = json.loads(line[8:])
    if other is None:
        print("HARNESS-ERROR selftest child produced no digests: %s %s" % (p.stdout[-500:], p.stderr[-1500:]))
        return 3
    for pid in props:
        diff = [i for i in mine[pid] if mine[pid][i] != other.get(pid, {}).get(i)]
        print("selftest %s: fresh interpreter under PYTHONHASHSEED=12345, divergent=%s" % (pid, diff))
        if diff:
            bad += 1
    print("selftest done in %.1fs: %s" % (time.time() - t0, "OK" if not bad else "DIVERGENCE"))
    return 0 if not bad else 3
