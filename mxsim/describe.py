"""Public description of a model: everything the statements name, through the public API only."""
import modelx as mx
from modelx.core.base import Interface
from .world import norm, objpath


def vdesc(v):
    try:
        import pandas as pd
        if isinstance(v, (pd.DataFrame, pd.Series)):
            return ["pandas", type(v).__name__, v.to_json()]
    except Exception:
        pass
    import types
    if isinstance(v, types.ModuleType):
        return ["module", getattr(v, "__name__", "?")]
    return norm(v)


def cells_desc(c, with_inputs=True):
    try:
        return _cells_desc(c, with_inputs)
    except Exception as e:
        # a half-built or corrupted cells is reported as part of the description, never as a harness error
        return {"error": type(e).__name__}


def _cells_desc(c, with_inputs=True):
    d = {
        "params": list(c.parameters),
        "src": c.formula.source if c.formula is not None else None,
        "is_cached": c.is_cached,
        "allow_none": c.allow_none,
        "doc": c.doc,
        "derived": c._is_derived(),
    }
    if with_inputs:
        ins = {}
        n = len(c.parameters)
        for k in list(c):
            key = k if n != 1 else (k,)
            try:
                if c.is_input(*key):
                    ins[repr(tuple(key))] = vdesc(c[k])
            except Exception as e:
                ins[repr(tuple(key))] = "<is_input raised %s>" % type(e).__name__
        d["inputs"] = ins
    return d


def ref_desc(parent, name):
    try:
        prx = parent._get_object(name, as_proxy=True)
        return {"value": vdesc(prx.value), "mode": prx.refmode, "derived": prx.is_derived()}
    except Exception as e:
        return {"error": type(e).__name__}


def space_desc(s, with_inputs=True, with_items=False):
    d = {
        "doc": s.doc,
        "allow_none": s.allow_none,
        "bases": [objpath(b) for b in s.bases],
        "params": list(s.parameters) if s.parameters is not None else None,
        "formula": s.formula.source if s.formula is not None else None,
        "cells": {n: cells_desc(c, with_inputs) for n, c in s.cells.items()},
        "refs": {n: ref_desc(s, n) for n in s._own_refs},
        "spaces": {n: space_desc(ch, with_inputs, with_items) for n, ch in s.spaces.items()},
    }
    if hasattr(s, "_direct_bases"):
        try:
            d["direct_bases"] = [objpath(b) for b in s._direct_bases]
        except Exception:
            pass
    if with_items:
        d["items"] = {repr(k): space_desc(v, with_inputs, with_items) for k, v in s.itemspaces.items()}
    return d


def model_desc(m, with_inputs=True, with_items=False):
    return {
        "doc": m.doc,
        "allow_none": m.allow_none,
        "refs": {n: {"value": vdesc(v)} for n, v in m.refs.items() if n != "__builtins__"},
        "spaces": {n: space_desc(s, with_inputs, with_items) for n, s in m.spaces.items()},
    }


def diff(a, b, path=""):
    """First difference between two descriptions as a short string, or None."""
    if type(a) != type(b):
        return "%s: %r != %r" % (path, a, b)
    if isinstance(a, dict):
        for k in sorted(set(a) | set(b), key=str):
            if k not in a:
                return "%s.%s: missing before" % (path, k)
            if k not in b:
                return "%s.%s: missing after" % (path, k)
            d = diff(a[k], b[k], path + "." + str(k))
            if d:
                return d
        return None
    if isinstance(a, list):
        if len(a) != len(b):
            return "%s: %r != %r" % (path, a, b)
        for i, (x, y) in enumerate(zip(a, b)):
            d = diff(x, y, path + "[%d]" % i)
            if d:
                return d
        return None
    if a != b:
        return "%s: %r != %r" % (path, a, b)
    return None
