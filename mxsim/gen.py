"""Seeded generation of formulas and operations against the current RefModel state."""
from . import refmodel as rm

CELLS = ["f", "g", "h", "u", "v", "w"]
REFS = ["k", "m", "n", "q"]
TOPS = ["A", "B", "C", "D"]
CHILDREN = ["U", "V"]
PRIMES = [2, 3, 5, 7, 11, 13, 17, 19, 23, 29, 31, 37, 41, 43, 47, 53, 59, 61, 67, 71, 73, 79, 83, 89, 97,
          101, 103, 107, 109, 113, 127, 131, 137, 139, 149, 151, 157, 163, 167, 173, 179, 181, 191, 193, 197, 199]
EDIT_OPS = ("new_space", "del_space", "rename_space", "add_bases", "remove_bases", "set_sformula", "del_sformula",
            "new_cells", "del_cells", "rename_cells", "set_formula", "del_formula", "set_cached", "set_allow_none",
            "set_doc", "set_ref", "del_ref", "set_value")
# operations that may remove input values: they are edits too (replayed into the fresh twin)
EDIT_OPS_CLEAR = ("clear_at", "clear", "clear_all", "space_clear_all", "space_clear_cells", "model_clear_all")
# pure cache operations (precondition is cache state): never replayed into the twin
EDIT_OPS_CACHE = ("clear_items", "del_item")


class Fresh:
    """Source of fresh distinct values so that a stale or misattributed value is visibly different."""
    def __init__(self, start=1000):
        self.n = start

    def next(self):
        self.n += 7
        return self.n


def rank(name, pool=CELLS):
    return pool.index(name) if name in pool else len(pool)


def cells_params(rng, cfg):
    r = rng.random()
    if r < cfg.get("p_scalar", 0.15):
        return []
    a, b = cfg.get("cells_param_names", ["x", "y"])
    if r < 0.8:
        return [[a, None]]
    return [[a, None], [b, rng.choice([1, 2])]]


class FGen:
    """Formula generator for one cells in one space."""

    def __init__(self, rng, model, space, name, params, cfg, pool=CELLS):
        self.rng = rng
        self.m = model
        self.s = space
        self.name = name
        self.params = params
        self.cfg = cfg
        self.pool = pool
        self.rank = rank(name, pool)
        self.pnames = [p for p, _ in params]
        self.locals = []

    # --- targets ----------------------------------------------------------
    def callables(self):
        """[(recv path, cells name, params of target, kind)] with rank lower than ours."""
        out = []
        s = self.s
        try:
            dc = rm.derived_cells(s)
        except rm.NoMRO:
            dc = {}
        allow_items = self.rank > 0 and self.cfg.get("items", True)
        for n, (d, c) in dc.items():
            if rank(n, self.pool) < self.rank and c.formula is not None:
                out.append(([], n, c.formula["params"], "sib"))
                out.append((["_space"], n, c.formula["params"], "sib_attr"))
        for cn, ch in s.spaces.items():
            for n, (d, c) in self._dc(ch).items():
                if rank(n, self.pool) < self.rank and c.formula is not None:
                    out.append(([cn], n, c.formula["params"], "child"))
                    if allow_items and ch.formula is not None:
                        out.append(([cn, ["item", self.item_args(ch), self.rng.choice(["idx", "call"])]], n,
                                    c.formula["params"], "child_item"))
        for tn, t in self.m.spaces.items():
            if t is s or s.is_in(t):
                continue
            for n, (d, c) in self._dc(t).items():
                if rank(n, self.pool) < self.rank and c.formula is not None:
                    out.append((["_model", tn], n, c.formula["params"], "other"))
                    if allow_items and t.formula is not None:
                        out.append((["_model", tn, ["item", self.item_args(t), self.rng.choice(["idx", "call"])]], n,
                                    c.formula["params"], "other_item"))
        if isinstance(s.parent, rm.RSpace) and not self.cfg.get("export_subset"):
            for n, (d, c) in self._dc(s.parent).items():
                if rank(n, self.pool) < self.rank and c.formula is not None:
                    out.append((["_space", "parent"], n, c.formula["params"], "parent"))
        # object-valued references to cells
        for rn, (d, r) in self._dr(s).items():
            v = r.value
            if isinstance(v, rm.RCells) and not v.deleted and rank(v.name, self.pool) < self.rank and v.formula:
                out.append(([], rn, v.formula["params"], "objref"))
            if isinstance(v, rm.RSpace) and not v.deleted:
                for n, (d2, c) in self._dc(v).items():
                    if rank(n, self.pool) < self.rank and c.formula is not None:
                        out.append(([rn], n, c.formula["params"], "spaceref"))
        return out

    def _dc(self, s):
        try:
            return rm.derived_cells(s)
        except rm.NoMRO:
            return {}

    def _dr(self, s):
        try:
            return rm.derived_refs(s)
        except rm.NoMRO:
            return {}

    def item_args(self, sp):
        return [["c", self.rng.choice([0, 1, 2])] for p, d in sp.formula["params"] if d is None or self.rng.random() < 0.5]

    def readables(self):
        """[(kind, expr)] value reads available to the formula."""
        out = []
        s = self.s
        for rn, (d, r) in self._dr(s).items():
            if isinstance(r.value, int):
                out.append(("name", ["n", rn]))
                out.append(("attr_space", ["a", ["_space"], rn]))
        for rn, r in self.m.refs.items():
            if isinstance(r.value, int):
                out.append(("model_name", ["n", rn]))
                out.append(("attr_model", ["a", ["_model"], rn]))
                out.append(("attr_space_model", ["a", ["_space"], rn]))
        for cn, ch in s.spaces.items():
            for rn, (d, r) in self._dr(ch).items():
                if isinstance(r.value, int):
                    out.append(("attr_child", ["a", [cn], rn]))
            for rn, r in self.m.refs.items():
                if isinstance(r.value, int):
                    out.append(("attr_child_model", ["a", [cn], rn]))
        if isinstance(s.parent, rm.RSpace) and not self.cfg.get("export_subset"):
            for rn, (d, r) in self._dr(s.parent).items():
                if isinstance(r.value, int):
                    out.append(("attr_parent", ["a", ["_space", "parent"], rn]))
        for tn, t in self.m.spaces.items():
            if t is not s and not s.is_in(t):
                for rn, (d, r) in self._dr(t).items():
                    if isinstance(r.value, int):
                        out.append(("attr_other", ["a", ["_model", tn], rn]))
        if self.cfg.get("ancestor_params"):
            anc = s.parent
            while isinstance(anc, rm.RSpace):
                if anc.formula is not None:
                    for p, d in anc.formula["params"]:
                        out.append(("ancestor_param", ["n", p]))
                anc = anc.parent
        if s.formula is not None and self.cfg.get("param_reads", True):
            for p, d in s.formula["params"]:
                out.append(("space_param", ["n", p]))
            ret = s.formula.get("ret")
            if ret and "refs" in ret:
                for rn in ret["refs"]:
                    out.append(("space_xref", ["n", rn]))
        return out

    # --- expressions ------------------------------------------------------
    def arg_for(self):
        r = self.rng.random()
        if self.pnames and r < 0.55:
            return ["p", self.pnames[0]]
        if self.pnames and r < 0.8:
            return ["bin", "-", ["p", self.pnames[0]], ["c", 1]]
        return ["c", self.rng.choice([0, 1, 2, 3])]

    def call_expr(self, t):
        recv, n, tparams, kind = t
        need = [p for p, d in tparams if d is None]
        opt = [p for p, d in tparams if d is not None]
        names = list(need)
        if opt and self.rng.random() < 0.4:
            names += opt
        args = [self.arg_for() for _ in names]
        spell = self.rng.choice(["pos", "pos", "kw", "idx"]) if args else "pos"
        if spell == "idx" and not recv and self.rng.random() < 0.9:
            spell = "pos"    # bare-name subscription is a TypeError inside formulas (cells are bound as callables)
        if spell == "idx" and self.cfg.get("export_subset"):
            spell = "pos"    # Cells.__getitem__ is interface API, not formula syntax the exporter translates
        e = ["call", recv, n, args, spell, names]
        return e

    def leaf(self):
        r = self.rng.random()
        if r < 0.25:
            return ["c", self.rng.choice(PRIMES)]
        if r < 0.45 and self.pnames:
            return ["p", self.rng.choice(self.pnames + self.locals)]
        if r < 0.7:
            rd = self.readables()
            pref = self.cfg.get("prefer_read")
            if pref:
                cand = [x for x in rd if x[0] in pref]
                if cand and self.rng.random() < 0.7:
                    rd = cand
            if rd:
                return self.rng.choice(rd)[1]
        cs = self.callables()
        pref = self.cfg.get("prefer_call")
        if pref:
            cand = [x for x in cs if x[3] in pref]
            if cand and self.rng.random() < 0.7:
                cs = cand
        if cs:
            return self.call_expr(self.rng.choice(cs))
        return ["c", self.rng.choice(PRIMES)]

    def expr(self, depth):
        if depth <= 0 or self.rng.random() < 0.3:
            return self.leaf()
        r = self.rng.random()
        if r < 0.5:
            return ["bin", self.rng.choice(["+", "+", "-", "*"]), self.expr(depth - 1), self.expr(depth - 1)]
        if r < 0.62:
            if self.cfg.get("simple_cond"):
                # no comprehension / nested lambda inside the test of a conditional expression (exporter finding)
                self.noscope = getattr(self, "noscope", 0) + 1
                cond = ["cmp", self.rng.choice(["<", "<=", "==", ">"]), self.expr(depth - 1), self.leaf()]
                self.noscope -= 1
            else:
                cond = ["cmp", self.rng.choice(["<", "<=", "==", ">"]), self.expr(depth - 1), self.leaf()]
            return ["if", cond, self.expr(depth - 1), self.expr(depth - 1)]
        if r < 0.74:
            fn = self.rng.choice(["max", "min", "abs"])
            if fn == "abs":
                return ["bi", fn, [self.expr(depth - 1)]]
            return ["bi", fn, [self.expr(depth - 1), self.expr(depth - 1)]]
        if getattr(self, "noscope", 0) and r >= 0.74:
            return self.leaf()
        if r < 0.84 and self.cfg.get("comprehensions", True):
            var = "t"
            if self.cfg.get("p_comp_shadow") and self.rng.random() < self.cfg["p_comp_shadow"]:
                # the comprehension's target has the name of a reference the formula can also read
                rd = [x for x in self.readables() if x[0] in ("name", "model_name")]
                if rd:
                    pick = rd[self.rng.randrange(len(rd))][1]
                    var = pick[1]
                    if self.rng.random() < 0.5:
                        # ... and a comprehension nested in it reads that target, while the formula reads the member of the
                        # same name outside both
                        self.locals.append(var)
                        self.locals.append("u")
                        inner = ["sum", "u", self.rng.choice([1, 2]), ["bin", "+", ["p", var], self.expr(max(depth - 2, 0))],
                                 self.rng.choice(["list", "list", "gen"])]
                        self.locals.remove("u")
                        body = ["bin", self.rng.choice(["+", "-"]), inner, self.expr(max(depth - 2, 0))]
                        self.locals.remove(var)
                        return ["bin", "+", list(pick), ["sum", var, self.rng.choice([1, 2, 3]), body, self.rng.choice(["list", "list", "gen"])]]
            self.locals.append(var)
            body = self.expr(depth - 1)
            self.locals.remove(var)
            return ["sum", var, self.rng.choice([1, 2, 3]), body, self.rng.choice(["gen", "list"])]
        if r < 0.9 and self.cfg.get("nested", True):
            # nested lambda whose parameter shadows a global reference name
            rd = [x for x in self.readables() if x[0] in ("name", "model_name")]
            var = rd[0][1][1] if rd else "zz"
            return ["nested", var, ["bin", "+", ["p", var], ["c", 1]], self.expr(depth - 1)]
        return self.leaf()

    def formula(self):
        cfg = self.cfg
        style = "def" if self.rng.random() < cfg.get("p_def", 0.5) else "lambda"
        f = {"style": style, "params": self.params}
        depth = cfg.get("depth", 2)
        if style == "def":
            lets = []
            for i in range(self.rng.choice([0, 1, 1, 2])):
                var = "_t%d" % i
                if cfg.get("p_guard") and self.rng.random() < cfg["p_guard"]:
                    e = self.expr(depth - 1)
                    side = list(e) if self.rng.random() < 0.5 else self.expr(depth - 1)
                    lets.append(["guard", var, e, side, self.rng.choice(["reraise", "finally"])])
                elif cfg.get("try") and self.rng.random() < cfg.get("p_try", 0.3):
                    lets.append(["try", var, self.expr(depth - 1), ["c", self.rng.choice(PRIMES)]])
                else:
                    lets.append([var, self.expr(depth - 1)])
                self.locals.append(var)
            f["lets"] = lets
            if self.rng.random() < 0.3:
                f["doc"] = self.rng.choice(["doc of %s" % self.name, "two\n    lines", "quote ' inside"])
            if self.rng.random() < 0.2:
                f["comment"] = "a comment"
        body = self.expr(depth)
        if self.pnames and self.rng.random() < cfg.get("p_selfrec", 0.35):
            x = self.pnames[0]
            rest = [["p", p] for p in self.pnames[1:]] if self.rng.random() < 0.5 else []
            rec = ["call", [], self.name, [["bin", "-", ["p", x], ["c", 1]]] + rest, "pos", self.pnames[:1 + len(rest)]]
            body = ["if", ["cmp", "<=", ["p", x], ["c", 0]], ["c", self.rng.choice(PRIMES)],
                    ["bin", "+", rec, body]]
        f["ret"] = body
        if cfg.get("rfilter") and self.rng.random() < 0.5:
            f["rfilter"] = True
        return f


def gen_formula(rng, model, space, name, cfg, params=None, pool=CELLS):
    if params is None:
        params = cells_params(rng, cfg)
    return FGen(rng, model, space, name, params, cfg, pool).formula()


def gen_space_formula(rng, model, space, cfg):
    pn = cfg.get("space_param_names", ["i", "j"])
    params = [[pn[0], None]]
    if rng.random() < 0.35:
        params.append([pn[1], rng.choice([1, 2])])
    if cfg.get("ancestor_params") and isinstance(space.parent, rm.RSpace):
        # nested parametrised spaces get their own parameter names, so that cells below them can read the parameters
        # of every enclosing ItemSpace
        # ... except in some: the nested space re-uses the names of an enclosing one (its own arguments win there)
        if rng.random() >= cfg.get("p_shared_param", 0.3):
            params = [[{pn[0]: "a", pn[1]: "b"}[p], d] for p, d in params]
    r = rng.random()
    ret = None
    if r < 0.35:
        ret = {"refs": {"z": ["bin", "*", ["p", params[0][0]], ["c", rng.choice([10, 100])]]}}
    elif r < 0.45 and cfg.get("base_switch", False):
        others = [p for p in (s.path() for s in model.all_spaces()) if p != space.path()
                  and not model.space(p).is_in(space) and not space.is_in(model.space(p))]
        if others:
            ret = {"base": rng.choice(others)}
    out = {"params": params, "ret": ret, "probe": rng.random() < cfg.get("p_sprobe", 0.6)}
    if cfg.get("p_sformula_call") and rng.random() < cfg["p_sformula_call"]:
        # the parameter formula itself calls a cells (a leaf one, so that no ItemSpace is needed to answer it): the ItemSpace
        # becomes a dependent of that element
        leaf = CELLS[0]
        cands = []
        dc = visible_cells(space)
        if leaf in dc and dc[leaf][1].formula is not None:
            cands.append(([], leaf, dc[leaf][1].formula["params"]))
        for tn, t in model.spaces.items():
            if t is space or space.is_in(t) or t.formula is not None:
                continue
            d2 = visible_cells(t)
            if leaf in d2 and d2[leaf][1].formula is not None:
                cands.append((["_model", tn], leaf, d2[leaf][1].formula["params"]))
        if cands:
            recv, n, tparams = rng.choice(cands)
            names = [p_ for p_, d in tparams if d is None]
            call = ["call", recv, n, [["c", rng.choice([0, 1, 2])] for _ in names], "pos", names]
            if ret is not None and "refs" in ret and rng.random() < 0.6:
                k = next(iter(ret["refs"]))
                ret["refs"][k] = ["bin", "+", ret["refs"][k], call]
            else:
                out["pre"] = call
    return out


# --------------------------------------------------------------------------
# operations

def all_spaces(model):
    return list(model.all_spaces())


def visible_cells(space):
    try:
        return rm.derived_cells(space)
    except rm.NoMRO:
        return {}


def pick_space(rng, model):
    sps = all_spaces(model)
    return rng.choice(sps) if sps else None


def free_cells_name(rng, space, pool=CELLS, higher_than=None):
    used = set(visible_cells(space)) | set(space.refs) | set(space.spaces)
    cand = [n for n in pool if n not in used and (higher_than is None or rank(n, pool) > rank(higher_than, pool))]
    return rng.choice(cand) if cand else None


def gen_value(rng, fresh, model, cfg, space=None):
    r = rng.random()
    if r < cfg.get("p_objref", 0.15):
        sps = all_spaces(model)
        if sps:
            t = rng.choice(sps)
            if space is not None and cfg.get("p_mirror") and rng.random() < cfg["p_mirror"]:
                # a target in another branch whose path coincides with the holder's again at a deeper level
                # (A.U -> B.U): relative paths are computed from the common *leading* part only
                hp = space.path().split(".")
                mir = [x for x in sps if x is not space and x.path().split(".")[0] != hp[0]
                       and any(a == b for a, b in zip(x.path().split(".")[1:], hp[1:]))]
                if mir:
                    t = rng.choice(mir)
            cs = [n for n, (d, c) in visible_cells(t).items() if d is t or cfg.get("dangling_objrefs")]
            if cs and rng.random() < 0.6:
                return {"t": "obj", "space": t.path(), "cells": rng.choice(cs)}
            return {"t": "obj", "space": t.path()}
    if r < cfg.get("p_objref", 0.15) + cfg.get("p_fnref", 0.0):
        return {"t": "fn", "v": rng.choice(["neg", "big"])}
    return {"t": "int", "v": fresh.next()}


def eval_args(rng, params, cfg):
    out = []
    for p, d in params:
        if d is None or rng.random() < 0.4:
            out.append(rng.randrange(0, cfg.get("argmax", 4) + 1))
        else:
            break
    return out


def bound_key(params, args):
    key = list(args)
    for p, d in params[len(args):]:
        key.append(d)
    return key
