"""C16 - memory-optimised runs give the direct results and keep only the targets (plan-twin; no fault dimension)."""
from .base import PropBase, Violation
from .. import machine, gen, grammar, probe, refmodel as rm, history
from ..world import norm, objpath, left_executing
from . import c02, c01, c06
import modelx as mx
from modelx.core.cells import Cells
from modelx.core.errors import DeletedObjectError


def swarm(rng):
    cfg = c06.swarm(rng)
    cfg.update({"n_spaces": rng.choice([1, 2, 3]), "n_cells": rng.choice([3, 4, 5, 6]), "p_uncached": rng.choice([0.0, 0.0, 0.3, 0.6]), "recalc": False,
                "p_selfrec": 0.6, "n_targets": rng.choice([1, 1, 2, 3]), "step_size": rng.choice([1, 2, 3, 4, 5, 8, 1000]),
                "prior": rng.random() < 0.4, "n_inputs": rng.choice([0, 0, 1, 2])})
    if rng.random() < 0.4:
        # formulas that reach into ItemSpaces (created while the plan is being traced)
        cfg.update({"items": True, "p_sformula": rng.choice([0.5, 0.8]), "n_spaces": rng.choice([2, 3]), "max_depth": 2,
                    "prefer_call": ["child_item", "other_item"]})
    return cfg


def el_of(node):
    o = node.obj
    return (objpath(o.parent), o.name, tuple(node.args))


class C16(PropBase):
    id = "C16"
    level = "exploration"
    rule = ("one case = one generated DAG model (all cells cached; possibly with inputs and with values already held from an "
            "earlier evaluation), a non-empty target set and a step size from 1 to beyond the number of elements; "
            "generate_actions must leave the held map as it was, every element the evaluator says the targets need must "
            "appear in exactly one calc block after all its callees; execute_actions must leave every target holding the "
            "direct value, no other calculated value, inputs untouched, and the probe log must show no element executed "
            "twice; non-trivial = the plan had at least two calc blocks; distinct = distinct event-log digest")
    tiers = {"quick": {"budget_s": 40, "timeout_s": 60}, "thorough": {"budget_s": 900, "timeout_s": 120}}
    reach_probes = ["reach/plans_checked", "reach/multi_block_plans"]
    assumptions = ["static spaces; uncached cells in the middle of chains in a part of the corpus (they hold nothing and run on every call, so the computed-once clause is asserted of cached elements only)"]

    def execute(self, ctx):
        if ctx.doc is None:
            ctx.cfg = swarm(ctx.rng("cfg"))
        cfg = ctx.cfg
        mx.set_recalc(False)
        mach = machine.Machine(ctx.seed, cfg)
        if ctx.doc is None:
            mach.build(cfg["n_spaces"], cfg["n_cells"], cfg["n_refs"])
            gadget = cfg.get("gadget_uncached_chain") and mach.ref.space("ZU") is None
            if gadget:
                # cached elements reached from a cached one through two uncached cells in a row (a recursive chain, so that a
                # small step size separates the elements)
                def cells(name, cached, ret):
                    return {"op": "new_cells", "space": "ZU", "name": name, "is_cached": cached,
                            "formula": {"style": "lambda", "params": [["x", None]], "ret": ret}}
                call = lambda n, a=None: ["call", [], n, [a or ["p", "x"]], "pos", ["x"]]
                for op in ({"op": "new_space", "parent": "", "name": "ZU", "bases": []},
                           cells("f", True, ["if", ["cmp", "<=", ["p", "x"], ["c", 0]], ["c", 7],
                                             ["bin", "+", call("f", ["bin", "-", ["p", "x"], ["c", 1]]), ["c", 1]]]),
                           cells("g", False, ["bin", "+", call("f"), ["c", 1]]),
                           cells("h", False, ["bin", "*", call("g"), ["c", 2]]),
                           cells("u", True, ["bin", "+", call("h"), ["c", 3]])):
                    mach.do(op)
            steps = list(mach.steps)
            for i in range(cfg["n_inputs"]):
                op = mach.g_set_value()
                if op:
                    steps.append(op)
            if cfg["prior"]:
                q = mach.g_eval()
                if q:
                    steps.append(q)
            targets = []
            for i in range(cfg["n_targets"] * 3):
                q = mach.g_eval()
                if q and all(isinstance(s, str) for s in q["loc"]) and len(targets) < cfg["n_targets"]:
                    targets.append(q)
            if gadget:
                targets = [{"op": "eval", "loc": ["ZU"], "name": "u", "args": [3], "spell": "pos"}] + targets[:1]
                cfg["step_size"] = ctx.rng("gadget").choice([1, 2])
            prng = ctx.rng("env")
            env = {"recalc": prng.random() < 0.25, "trace": prng.choice([0, 0, 0, 3, 50]),
                   "fault": prng.randrange(1000) if prng.random() < 0.25 else None}
            steps.append({"op": "plan", "targets": targets, "step_size": cfg["step_size"], "env": env})
        else:
            steps = ctx.doc["steps"]
        ctx.steps = steps
        nb = len(mach.steps)
        for i, op in enumerate(steps):
            if op["op"] == "plan":
                self.plan(ctx, mach, op)
            elif i >= nb or ctx.doc is not None:
                mach.do(op, record=False)
        ctx.events = mach.events
        ctx.nsteps = len(steps)

    def plan(self, ctx, mach, op):
        m = mach.world.m
        ev = grammar.Evaluator(mach.ref)
        # what is held now (prior evaluation): mirror by evaluating the same prior queries
        for s in mach.steps:
            if s["op"] == "eval" and history.eval_target_exists(mach.ref, s):
                ev.top_call(s["loc"], s["name"], list(s["args"]))
        targets = []
        nodes = []
        for q in op["targets"]:
            if not history.eval_target_exists(mach.ref, q):
                continue
            s = mach.ref.space(".".join(q["loc"]))
            c = gen.visible_cells(s)[q["name"]][1]
            if not c.is_cached or c.formula is None:
                continue
            params = c.formula["params"]
            if len(q["args"]) > len(params):
                continue
            key = tuple(gen.bound_key(params, q["args"]))
            el = (s.path(), q["name"], key)
            if el in targets or el in ev.inputs:
                continue
            targets.append(el)
            nodes.append(mach.world.space(s.path()).cells[q["name"]].node(*key))
        if not targets:
            return

        def held():
            out = {}
            for s in mach.ref.all_spaces():
                for n in gen.visible_cells(s):
                    for k, v in mach.world.held(s.path(), n).items():
                        out[(s.path(), n, k)] = v
            # values inside the ItemSpaces that exist (none is created by looking)

            def dyn(sp):
                p = probe._path(sp)
                for n, c in sp.cells.items():
                    np_ = len(c.parameters)
                    for k in list(c):
                        out[(p, n, tuple(k) if np_ != 1 else (k,))] = norm(c[k])
                for ch in sp.spaces.values():
                    dyn(ch)
                for it in sp.itemspaces.values():
                    dyn(it)
            for s in mach.ref.all_spaces():
                try:
                    live = mach.world.space(s.path())
                    items = list(live.itemspaces.values())
                except Exception:
                    continue
                for it in items:
                    dyn(it)
            return out
        before = held()
        # direct values and needed elements by the evaluator (fresh memo + inputs only)
        ev2 = grammar.Evaluator(mach.ref)
        direct = {}
        for el in targets:
            r = ev2.top_call(el[0].split("."), el[1], list(el[2]))
            if r[0] != "val" or getattr(ev2, "poisoned", False):
                return
            direct[el] = norm(r[1])
        needed = {e for e in ev2.memo if e not in ev2.inputs}
        probe.reset()
        # session settings that must not matter: the recalculation option, and a stack trace of the user's own (bounded, with
        # records of an earlier evaluation in it), which has to be still running, with those records, afterwards
        env = op.get("env") or {}
        if env.get("recalc"):
            mx.set_recalc(True)
        if env.get("trace"):
            import warnings
            with warnings.catch_warnings():
                warnings.simplefilter("ignore")
                mx.start_stacktrace(maxlen=env["trace"])
            # records of an earlier evaluation (of a scratch model, so that the model under test is left alone)
            tm = mx.new_model("ZZtrace")
            tc = tm.new_space("S").new_cells("f", formula="lambda x: 0 if x <= 0 else f(x - 1) + 1")
            tc(4)
            tm.close()
        try:
            self._plan_body(ctx, mach, op, m, nodes, targets, before, held, direct, needed, ev, ev2)
        finally:
            mx.set_recalc(False)
            if env.get("trace"):
                ok = True
                try:
                    mx.get_stacktrace(summarize=False)
                except Exception:
                    ok = False
                import warnings
                with warnings.catch_warnings():
                    warnings.simplefilter("ignore")
                    try:
                        mx.stop_stacktrace()
                    except Exception:
                        pass
                if not ok:
                    raise Violation("C16/user-stack-trace-switched-off", {"step_size": op["step_size"]})
                self.ctx_count(ctx, "plans_under_a_user_stack_trace")

    @staticmethod
    def ctx_count(ctx, key):
        ctx.count(key, 1, "reach")

    @staticmethod
    def _restore_after_trace(mach, before, held):
        """The evaluation that filled the user's trace may have left values: back to the held map the plan starts from."""
        now = held()
        for el in now:
            if el not in before:
                try:
                    mach.world.space(el[0]).cells[el[1]].clear_at(*el[2])
                except Exception:
                    pass

    def _plan_body(self, ctx, mach, op, m, nodes, targets, before, held, direct, needed, ev, ev2):
        try:
            actions = m.generate_actions(nodes, step_size=op["step_size"])
        except Exception as e:
            raise Violation("C16/generate_actions-raised/%s" % type(e).__name__, {"targets": [repr(t) for t in targets], "step_size": op["step_size"], "error": repr(e)[:200]})
        after_gen = held()
        if after_gen != before:
            extra = sorted(repr(k) for k in after_gen if k not in before)[:5]
            missing = sorted(repr(k) for k in before if k not in after_gen)[:5]
            raise Violation("C16/generate_actions-changed-held-values/%s" % ("left-values" if extra else "removed-values"),
                            {"left": extra, "removed": missing, "step_size": op["step_size"]})
        calc_seen = {}
        nblocks = 0
        for act, ns in actions:
            if act == "calc":
                nblocks += 1
                for n in ns:
                    try:
                        e = el_of(n)
                    except DeletedObjectError:
                        # not judged by itself: what such a plan does when executed is (values, repeated executions, leftovers)
                        ctx.count("plan_nodes_of_deleted_objects", 1, "reach")
                        continue
                    if e in calc_seen:
                        raise Violation("C16/element-in-two-calc-steps", {"element": repr(e)})
                    calc_seen[e] = nblocks
        # elements already held before planning need not be planned
        need_plan = {e for e in needed if e not in before}
        missing = [e for e in need_plan if e not in calc_seen]
        if missing:
            raise Violation("C16/needed-element-not-planned", {"missing": [repr(e) for e in missing][:5], "step_size": op["step_size"]})
        order = {e: i for i, e in enumerate(calc_seen)}
        for e in calc_seen:
            for callee in ev2.edges.get(e, ()):
                if callee in order and order[callee] > order[e]:
                    raise Violation("C16/element-planned-before-its-callee", {"element": repr(e), "callee": repr(callee)})
        ctx.count("plans_checked", 1, "reach")
        if nblocks >= 2:
            ctx.count("multi_block_plans", 1, "reach")
            ctx.nontrivial = True
        mach.events.append("plan targets=%s step=%s blocks=%d" % (targets, op["step_size"], nblocks))
        env = op.get("env") or {}
        sites = [x for x in probe.LOG if x[2] == 0]
        if env.get("fault") is not None and sites:
            # the run fails at a seeded formula (an injected exception): whatever it had pasted by then is not left behind as
            # the user's input, and the same actions executed again - the failure gone - do what they always do
            site = sites[env["fault"] % len(sites)]
            inputs_before = {e for e in before if e in ev.inputs}
            probe.reset()
            probe.arm(probe.FaultPlan([{"site": [site[0], site[1], site[2], list(site[3])], "occ": 0, "exc": "ValueError"}], ()))
            try:
                m.execute_actions(actions)
                failed = False
            except BaseException:
                failed = True
            finally:
                probe.arm(None)
            ctx.count("ValueError" if failed else "armed_not_reached", 1, "faults_fired")
            mach.events.append("execute under fault at %r -> %s" % (site, "failed" if failed else "completed"))
            if failed:
                left = []
                for el in held():
                    if el in inputs_before or "[" in el[0]:
                        continue
                    try:
                        if mach.world.space(el[0]).cells[el[1]].is_input(*el[2]):
                            left.append(repr(el))
                    except Exception:
                        pass
                if left:
                    raise Violation("C16/failed-run-left-pasted-values-as-inputs", {"elements": left[:5], "step_size": op["step_size"]})
                sysm = mx.core.mxsys
                if left_executing():
                    raise Violation("C16/left-marked-executing/after-failed-run", {})
                ctx.count("failed_runs_checked", 1, "reach")
        probe.reset()
        try:
            m.execute_actions(actions)
        except Exception as e:
            raise Violation("C16/execute_actions-raised/%s" % type(e).__name__, {"error": repr(e)[:200], "step_size": op["step_size"]})
        counts = {}
        for site in probe.LOG:
            if site[2] == 0:
                counts[(site[0], site[1], site[3])] = counts.get((site[0], site[1], site[3]), 0) + 1
        def cached(k):
            # (an uncached cells runs on every call: that is what it is for)
            import re
            sp = mach.ref.space(re.sub(r"\[[^\]]*\]", "", k[0]))
            c = gen.visible_cells(sp).get(k[1]) if sp is not None else None
            return c is None or c[1].is_cached
        twice = [repr(k) for k, v in counts.items() if v > 1 and cached(k)]
        if twice:
            raise Violation("C16/element-computed-twice", {"elements": twice[:5], "step_size": op["step_size"]})
        final = held()
        inputs0 = {e: v for e, v in before.items() if e in ev.inputs}
        for el in targets:
            if final.get(el) != direct[el]:
                raise Violation("C16/target-value-differs", {"target": repr(el), "got": final.get(el), "direct": direct[el]})
        for e, v in inputs0.items():
            if final.get(e) != v:
                raise Violation("C16/input-touched", {"element": repr(e)})
        leftovers = [e for e in final if e not in targets and e not in inputs0 and e not in before]
        if leftovers:
            raise Violation("C16/calculated-value-left-behind", {"elements": [repr(e) for e in leftovers][:5], "step_size": op["step_size"]})


PROP = C16()
