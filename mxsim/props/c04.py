"""C04 - write/read round trip (directory and zip) reproduces the model.  Fault-free configuration of the
persistence simulator (the fs shim only logs); no fault or schedule dimension in the statement itself."""
from .base import PropBase, Violation
from .. import persist


class C04(PropBase):
    id = "C04"
    level = "exploration"
    rule = ("one case = one model produced by a seeded edit/evaluation history (renamed, re-based, overridden members, "
            "lambda and def formulas with docstrings/comments, references in all three modes incl. object-valued, picklable "
            "values, awkward documentation strings, inputs, uncached cells, allow_none at three levels, parameter formulas) "
            "and a seeded chain of 1-3 write/zip -> read -> write ... steps; checked: writing alters nothing but path, the "
            "public description and the answers of a query set are equal before writing and after reading, the zip and the "
            "directory written from the same state list the same files, a save that returned normally loads; "
            "non-trivial = at least one round trip completed; distinct = distinct event-log digest")
    tiers = {"quick": {"budget_s": 45, "timeout_s": 120}, "thorough": {"budget_s": 900, "timeout_s": 240}}
    reach_probes = ["reach/round_trips", "reach/listing_compared"]
    assumptions = ["values compared with ==; pickle member contents are not byte-compared; member order ignored"]

    def execute(self, ctx):
        if ctx.doc is None:
            ctx.cfg = persist.swarm(ctx.rng("cfg"), faults=False)
        persist.run_c04(ctx)


PROP = C04()
