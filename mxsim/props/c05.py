"""C05 - a failed evaluation leaves a consistent, retryable state (fault enumeration over probe points)."""
from .base import PropBase, Violation
from .. import faults, deep
from . import c02


class C05(PropBase):
    id = "C05"
    level = "fault_enumeration"
    rule = ("one case = one generated model and one query; the fault-free evaluation by the independent evaluator yields "
            "the probe sequence, and for EVERY probe point of it (entry, between callees, before return, of every element "
            "of the DAG, ItemSpace parameter formulas included) x a seeded subset of exception kinds (ValueError, "
            "ZeroDivisionError, KeyError, harness exception, MemoryError, RecursionError, KeyboardInterrupt), plus a forced "
            "None return at every element, plus pairs of faults where a formula may catch the first, the query is run on a "
            "cleared model with exactly that fault; checked: raised FormulaError (or the original when disabled), "
            "get_error() is the injected object, dict(cells) of every cells equals the evaluator's held map, the retry "
            "returns the fault-free value and re-executes only what had not completed, nothing is left executing, sanity "
            "checks pass; one run in eight instead drives recursive chains (self, mutual, through uncached cells, by attribute, "
            "inside a comprehension or a generator) against a configured recursion limit (the interpreter's own C-nesting cap, where it comes first, is counted as an injected fault and judged as one): shorter chains must evaluate, longer ones raise the "
            "depth error leaving nothing of the failing chain held, and later requests succeed once a prefix is held; "
            "non-trivial = the fault escaped at depth >= 2 with at least one completed element (or a chain exceeded the limit); "
            "distinct = distinct event-log digest")
    tiers = {"quick": {"budget_s": 45, "timeout_s": 90}, "thorough": {"budget_s": 900, "timeout_s": 180}}
    reach_probes = ["reach/fault_at_depth_ge2_with_completed_elements", "reach/retries_checked", "reach/failure_handled_by_formula",
                    "reach/deep_over_limit", "reach/deep_below_limit"]
    assumptions = ["KeyboardInterrupt inside a formula is expected wrapped like any exception (statement: any exception)",
                   "the evaluator predicts which elements complete before the fault (validated fault-free by C01)"]

    def execute(self, ctx):
        if ctx.doc is None:
            ctx.cfg = faults.swarm(ctx.rng("cfg"), c02.swarm(ctx.rng("cfg0")))
            ctx.cfg["deep"] = ctx.rng("deep?").random() < 0.12
        if ctx.cfg.get("deep"):
            # the recursion-limit part of the statement: chains against a configured limit
            deep.run(ctx, "C05")
            return
        faults.Scenario(ctx, "C05", check_state=True, check_tb=False).run()


PROP = C05()
