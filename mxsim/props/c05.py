"""C05 - a failed evaluation leaves a consistent, retryable state (fault enumeration over probe points)."""
from .base import PropBase, Violation
from .. import faults
from . import c02


class C05(PropBase):
    id = "C05"
    level = "fault_enumeration"
    rule = ("one case = one generated model and one query; the fault-free evaluation by the independent evaluator yields "
            "the probe sequence, and for EVERY probe point of it (entry, between callees, before return, of every element "
            "of the DAG, ItemSpace parameter formulas included) x a seeded subset of exception kinds (ValueError, "
            "ZeroDivisionError, KeyError, harness exception, MemoryError, RecursionError, KeyboardInterrupt), plus a forced "
            "None return at every element, plus pairs of faults where a formula may catch the first, the query is run on a "
            "cleared model with exactly that fault; checked: raised FormulaError (or the original when disabled), "
            "get_error() is the injected object, dict(cells) of every cells equals the evaluator's held map, the retry "
            "returns the fault-free value and re-executes only what had not completed, nothing is left executing, sanity "
            "checks pass; non-trivial = the fault escaped at depth >= 2 with at least one completed element; "
            "distinct = distinct event-log digest")
    tiers = {"quick": {"budget_s": 45, "timeout_s": 90}, "thorough": {"budget_s": 900, "timeout_s": 180}}
    reach_probes = ["reach/fault_at_depth_ge2_with_completed_elements", "reach/retries_checked", "reach/failure_handled_by_formula"]
    assumptions = ["KeyboardInterrupt inside a formula is expected wrapped like any exception (statement: any exception)",
                   "the evaluator predicts which elements complete before the fault (validated fault-free by C01)"]

    def execute(self, ctx):
        if ctx.doc is None:
            ctx.cfg = faults.swarm(ctx.rng("cfg"), c02.swarm(ctx.rng("cfg0")))
        faults.Scenario(ctx, "C05", check_state=True, check_tb=False).run()


PROP = C05()
