"""C07 - ItemSpaces are parametrised, isolated, identity-stable instances of their base."""
from .base import PropBase, Violation
from .. import history, refmodel as rm, gen, grammar
from ..world import norm, objpath
from . import c02, c01, c13, c03
import modelx as mx
from modelx.core.errors import DeletedObjectError, FormulaError

WEIGHTS = {"eval": 7, "set_ref": 2.5, "del_ref": 0.8, "set_formula": 2, "new_cells": 1.5, "del_cells": 0.8, "sformula": 1.5,
           "bases": 1.0, "new_space": 1.0, "set_cached": 0.5, "clear": 1.0, "gc": 0.6, "rename_cells": 0.3}


def swarm(rng):
    cfg = c02.swarm(rng)
    cfg.update({"p_sformula": rng.choice([0.6, 0.8, 1.0]), "p_item_eval": 0.8, "n_spaces": rng.choice([2, 3, 4, 6]), "max_depth": rng.choice([2, 3, 3]),
                "n_steps": rng.choice([12, 20, 30]), "p_handle": rng.choice([0.15, 0.3]), "p_check": 0.2, "base_switch": rng.random() < 0.3,
                "p_objref": rng.choice([0.0, 0.1]), "recalc": False, "p_identity": 0.3, "nested_item_eval": rng.random() < 0.6})
    return cfg


class ItemOracle(history.Oracle):
    def propose(self):
        mach = self.mach
        if mach.sched.random() < self.run.cfg.get("p_identity", 0.3):
            sps = [s for s in mach.ref.all_spaces() if s.formula is not None]
            if sps:
                s = sps[mach.sched.randrange(len(sps))]
                args = [mach.sched.randrange(0, 3) for p, d in s.formula["params"]]
                return {"op": "identity", "space": s.path(), "args": args}
        return None

    def owns(self, op):
        return op["op"] == "identity"

    def do(self, op):
        mach = self.mach
        ref = mach.ref.space(op["space"])
        if ref is None or ref.formula is None:
            return
        params = ref.formula["params"]
        if len(op["args"]) != len(params):
            return
        sp = mach.world.space(op["space"])
        args = list(op["args"])
        try:
            a = sp[tuple(args) if len(args) != 1 else args[0]]
            b = sp(*args)
            c = sp(**{p: v for (p, d), v in zip(params, args)})
            # defaults omitted where the value equals the default
            short = list(args)
            while short and params[len(short) - 1][1] is not None and short[-1] == params[len(short) - 1][1]:
                short.pop()
            d = sp(*short) if len(short) < len(args) else a
        except FormulaError:
            return
        except DeletedObjectError:
            return
        self.ctx.count("identity_checks", 1, "reach")
        self.ctx.nontrivial = True
        if not (a is b and b is c and c is d):
            raise Violation("C07/equal-arguments-different-instances", {"space": op["space"], "args": args})
        if tuple(a.argvalues) != tuple(args):
            raise Violation("C07/instance-bound-to-other-arguments", {"space": op["space"], "args": args, "argvalues": list(a.argvalues)})
        other = [x + 1 for x in args]
        try:
            e = sp(*other)
        except (FormulaError, DeletedObjectError):
            return
        if e is a:
            raise Violation("C07/different-arguments-same-instance", {"space": op["space"], "args": args, "other": other})
        for name, par in zip([p for p, d in params], args):
            if getattr(a, name) != par:
                raise Violation("C07/parameter-not-bound-as-name", {"space": op["space"], "param": name})
        # child spaces replicated: the dynamic tree mirrors the base's tree, every node a distinct object under its own parent
        seen = {}

        def walk(dyn, base, path):
            if set(dyn.spaces) != set(base.spaces):
                raise Violation("C07/child-spaces-not-replicated", {"instance": path, "dynamic": sorted(dyn.spaces), "base": sorted(base.spaces)})
            for n, ch in dyn.spaces.items():
                if id(ch) in seen:
                    raise Violation("C07/two-dynamic-spaces-are-one-object", {"first": seen[id(ch)], "second": path + "." + n})
                seen[id(ch)] = path + "." + n
                if ch.parent is not dyn:
                    raise Violation("C07/dynamic-child-has-wrong-parent", {"child": path + "." + n})
                if set(ch.cells) != set(base.spaces[n].cells):
                    raise Violation("C07/dynamic-child-cells-differ-from-base", {"child": path + "." + n})
                walk(ch, base.spaces[n], path + "." + n)
        ret = ref.formula.get("ret")
        if not (ret and "base" in ret):
            walk(a, sp, op["space"] + repr(args))
            if seen:
                self.ctx.count("dynamic_children_checked", len(seen), "reach")
        self.listing(sp, op)

    def listing(self, sp, op):
        for key, inst in sp.itemspaces.items():
            k = key if isinstance(key, tuple) else (key,)
            if tuple(inst.argvalues) != tuple(k):
                raise Violation("C07/itemspaces-listing-key-mismatch", {"space": objpath(sp), "key": repr(key)})
            if inst.parent is not sp:
                raise Violation("C07/itemspaces-listing-foreign-instance", {"space": objpath(sp)})

    def after(self, op, out):
        if op["op"] in ("gc",) or out is None or out.get("st") == "skip":
            return
        m = self.mach.world.m
        for s in self.mach.ref.all_spaces():
            if s.formula is not None:
                self.listing(self.mach.world.space(s.path()), op)

    def checkpoint(self, op):
        """Cells inside instances evaluate as the evaluator says (parameters and returned references bound, sibling calls
        staying inside, child spaces replicated)."""
        mach = self.mach
        ev = grammar.Evaluator(mach.ref)
        if any(s.inputs for s in mach.ref.all_spaces()):
            # inputs inside static cells are fine for the evaluator; ItemSpace inputs are not generated
            pass
        for q in [x for x in list(self.run.queries)[-10:] + list(op.get("extra") or []) if any(not isinstance(s, str) for s in x["loc"])]:
            if not history.eval_target_exists(mach.ref, q):
                continue
            loc = [seg if isinstance(seg, str) else ["item", seg[1]] for seg in q["loc"]]
            r = ev.top_call(loc, q["name"], list(q["args"]))
            if r[0] == "unknown" or getattr(ev, "poisoned", False):
                return
            live = mach.world.apply(q)
            want = c01.ev_outcome(r)
            self.ctx.count("instance_evaluations_vs_evaluator", 1, "reach")
            w = {"st": want["st"], "val": norm(c01.enorm(want.get("val"))), "exc": want.get("exc")}
            if w["st"] == "ok" and w["val"] == "<object>":
                continue
            if not history.same(live, w):
                raise Violation("C07/instance-evaluates-differently/%s!=%s" % (history.short_kind(live), history.short_kind(want)),
                                {"query": q, "modelx": live, "evaluator": want})


class ItemHandles(c13.DeletionOracle):
    def gen_take(self):
        op = c13.DeletionOracle.gen_take(self)
        if op and op["kind"] in ("item", "dyncells", "itemchild"):
            return op
        return None


class C07(PropBase):
    id = "C07"
    level = "exploration"
    rule = ("one case = one seeded history over parametrised spaces (1-2 parameters with defaults, nested parametrised child "
            "spaces, parameter formulas returning None / extra references / another base) with evaluations inside instances, "
            "identity probes, kept handles to instances, dynamic cells and dynamic child spaces, GC steps, and edits of the "
            "base (cells, references, child spaces, bases, the parameter formula); checked: s[a] is s(a) is s(**kw) is the call "
            "with defaults omitted, other arguments give another instance, parameters are bound as names, itemspaces lists "
            "instances under their own arguments, values inside instances equal the independent evaluator, every kept handle "
            "raises DeletedObjectError or is the current instance, and the fresh-twin shows no value from old definitions; "
            "non-trivial = an identity probe ran or a value inside an instance was compared; distinct = event-log digest")
    tiers = {"quick": {"budget_s": 45, "timeout_s": 60}, "thorough": {"budget_s": 900, "timeout_s": 120}}
    reach_probes = ["reach/identity_checks", "reach/instance_evaluations_vs_evaluator", "reach/twin_checks", "reach/handle_checks"]
    assumptions = c02.PROP.assumptions + ["handle identity after re-creation is not required: raises or current"]

    def execute(self, ctx):
        if ctx.doc is None:
            ctx.cfg = swarm(ctx.rng("cfg"))
        cfg = ctx.cfg
        run = history.Run(ctx, cfg, [ItemOracle(), ItemHandles(), history.TwinOracle("C07")])
        if ctx.doc is None:
            run.generate(WEIGHTS, cfg["n_steps"], cfg["p_check"])
        else:
            run.replay(ctx.doc["steps"])
        run.finish()


PROP = C07()
