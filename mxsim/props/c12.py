"""C12 - names are unique per space and the visible namespace equals the containers."""
from .base import PropBase, Violation
from .. import history, refmodel as rm
from ..world import objpath, library_self_check
from . import c02
import modelx as mx

POOL = ["a", "b", "c", "d", "e"]

WEIGHTS = {"eval": 2, "new_space": 2.5, "new_cells": 3, "set_ref": 3, "del_ref": 1, "del_cells": 1, "del_space": 0.7,
           "rename_cells": 1.5, "rename_space": 1.2, "bases": 3.5, "set_formula": 0.5, "sformula": 0.4, "gc": 0.1}


def swarm(rng):
    cfg = c02.swarm(rng)
    cfg.update({"clash": True, "clash_pool": POOL[:rng.choice([3, 4, 5])], "pool": POOL,
                "n_spaces": rng.choice([2, 3, 4]), "n_cells": rng.choice([1, 2]), "n_refs": rng.choice([0, 1, 2]),
                "n_steps": rng.choice([10, 20, 30]), "p_objref": 0.0, "max_depth": rng.choice([1, 2]),
                "p_bases": rng.choice([0.3, 0.6]), "rename_multibase": True, "p_autoname": rng.choice([0.0, 0.5]), "p_def": 0.6,
                "p_space_refs": rng.choice([0.0, 0.4])})
    return cfg


def _differs(a, b):
    try:
        return bool(a != b)
    except Exception:
        return True         # (a cells compared with a value raises: they are not the same thing)


class NamesOracle(history.Oracle):
    def after(self, op, out):
        if op["op"] in ("eval", "gc") or out["st"] == "skip":
            return
        self.ctx.count("states_checked", 1, "reach")
        m = self.mach.world.m
        self.check_model(m, op)
        e = library_self_check()
        if isinstance(e, AssertionError):
            raise Violation("C12/sanity-check-failed/" + op["op"], {"op": strip(op), "outcome": out, "error": repr(e)[:300]})
        elif e is not None:
            raise Violation("C12/sanity-check-raised/%s/%s" % (op["op"], type(e).__name__), {"op": strip(op), "error": repr(e)[:300]})

    def check_model(self, m, op):
        sp = set(m.spaces)
        refs = set(m.refs) - {"__builtins__"}
        both = sp & refs
        if both:
            raise Violation("C12/model-name-two-kinds/" + op["op"], {"names": sorted(both), "op": strip(op)})
        vis = set(dir(m))
        want = sp | set(m.refs)
        if vis != want:
            raise Violation("C12/model-dir-mismatch/" + op["op"], {"dir": sorted(vis), "containers": sorted(want)})
        for s in m.spaces.values():
            self.check_space(s, m, op)

    def check_space(self, s, m, op):
        cells = set(s.cells)
        own = set(s._own_refs)
        spaces = set(s.spaces)
        for a, b, what in ((cells, own, "cells-ref"), (cells, spaces, "cells-space"), (own, spaces, "ref-space")):
            both = a & b
            if both:
                self.ctx.nontrivial = True
                raise Violation("C12/name-two-kinds/%s/%s" % (what, op["op"]),
                                {"space": objpath(s), "names": sorted(both), "op": strip(op)})
        refs = set(s.refs)
        want_refs = own | {"_self", "_space", "_model"} | set(m.refs)
        if refs != want_refs:
            raise Violation("C12/refs-view-mismatch/" + op["op"],
                            {"space": objpath(s), "refs": sorted(refs), "want": sorted(want_refs)})
        vis = set(dir(s))
        want = cells | refs | spaces
        if vis != want:
            raise Violation("C12/dir-mismatch/" + op["op"],
                            {"space": objpath(s), "extra": sorted(vis - want), "missing": sorted(want - vis)})
        for n in sorted(vis):
            if n == "__builtins__":
                continue
            try:
                got = getattr(s, n)
            except Exception as e:
                raise Violation("C12/visible-name-not-accessible/" + op["op"], {"space": objpath(s), "name": n, "exc": type(e).__name__})
            if n in cells:
                exp = s.cells[n]
            elif n in own:
                exp = s._own_refs[n]
            elif n in ("_self", "_space"):
                exp = s
            elif n == "_model":
                exp = m
            elif n in refs:
                exp = m.refs[n]
            else:
                exp = s.spaces[n]
            if got is not exp and got != exp:
                raise Violation("C12/attribute-denotes-other-kind/" + op["op"], {"space": objpath(s), "name": n})
        self.check_item(s, m, op)
        for ch in s.spaces.values():
            self.check_space(ch, m, op)

    def check_item(self, s, m, op):
        """The same precedence inside an ItemSpace of the space (and its dynamic children): a space-level reference wins
        over a model-level one of the same name; parameters and references returned by the parameter formula win over both."""
        from modelx.core.base import Interface
        rs = self.mach.ref.space(objpath(s))
        if rs is None or rs.formula is None or (rs.formula.get("ret") and "base" in rs.formula["ret"]):
            return
        args = [0 for p_, d in rs.formula["params"] if d is None]
        try:
            it = s(*args)
        except Exception:
            return
        over = {p_ for p_, d in rs.formula["params"]}
        ret = rs.formula.get("ret")
        if ret and "refs" in ret:
            over |= set(ret["refs"])

        def walk(dyn, static, label):
            for n in sorted(static._own_refs):
                if n in over or n.startswith("_"):
                    continue
                v = static._own_refs[n]
                if isinstance(v, Interface):
                    continue
                try:
                    got = getattr(dyn, n)
                except Exception as e:
                    raise Violation("C12/dynamic-space-reference-not-accessible/" + op["op"], {"instance": label, "name": n, "exc": type(e).__name__})
                self.ctx.count("dynamic_precedence_checks", 1, "reach")
                if got is not v and _differs(got, v):
                    raise Violation("C12/dynamic-space-reference-precedence/" + ("model-level-wins" if n in m.refs and (m.refs[n] is got or not _differs(m.refs[n], got)) else "other"),
                                    {"instance": label, "name": n, "got": repr(got)[:60], "space_level": repr(v)[:60], "op": strip(op)})
            for cn in sorted(static.spaces):
                if cn in dyn.spaces:
                    walk(dyn.spaces[cn], static.spaces[cn], label + "." + cn)
        walk(it, s, "%s[%s]" % (objpath(s), ", ".join(map(str, args))))


def strip(op):
    return {k: v for k, v in op.items() if k != "formula"}


class C12(PropBase):
    id = "C12"
    level = "exploration"
    rule = ("one case = one seeded history of member creation, deletion, renaming and base changes in which cells, "
            "reference and space names are drawn from ONE pool of 3-5 names so that direct and indirect clashes are "
            "frequent; after every operation, accepted or rejected, every space is checked: containers pairwise "
            "disjoint, dir()/attribute access/refs view equal the containers (space-level references before model-level ones, also "
            "inside an ItemSpace of the space and its dynamic children), library self-checks pass; "
            "non-trivial = the history contains an accepted base change or rename while at least two kinds of "
            "member exist; distinct = distinct event-log digest")
    tiers = {"quick": {"budget_s": 45, "timeout_s": 60}, "thorough": {"budget_s": 900, "timeout_s": 120}}
    reach_probes = ["reach/states_checked", "reach/edit_rejected", "reach/dynamic_precedence_checks"]
    assumptions = ["a model-level reference sharing a name with a cells or a space-level reference is legal shadowing"]

    def execute(self, ctx):
        if ctx.doc is None:
            ctx.cfg = swarm(ctx.rng("cfg"))
        cfg = ctx.cfg
        run = history.Run(ctx, cfg, [NamesOracle()])
        if ctx.doc is None:
            run.generate(WEIGHTS, cfg["n_steps"], 0.0)
        else:
            run.replay(ctx.doc["steps"])
        self.autonames(ctx, run)
        run.finish()
        ops = ctx.stats.get("ops", {})
        rej = ctx.stats.get("rejected", {})
        acc = sum(ops.get(k, 0) - rej.get(k, 0) for k in ("add_bases", "remove_bases", "rename_cells", "rename_space"))
        ctx.nontrivial = ctx.nontrivial or acc > 0


    def autonames(self, ctx, run):
        """Cells created without a name (deterministic epilogue on the model the history left behind): the automatic name is
        as free as a given one has to be - also in the sub spaces, where the name may be taken by a reference or a child
        space of the sub space's own."""
        m = run.mach.world.m
        oracle = run.oracles[0]

        def walk(p):
            for c in p.spaces.values():
                yield c
                yield from walk(c)
        spaces = sorted(walk(m), key=objpath)
        for s in spaces:
            subs = [t for t in spaces if any(b is s for b in t.bases)]
            if not subs:
                continue
            sub = subs[0]
            taken = set(dir(sub)) | set(dir(s))
            made = []
            for k in range(1, 8):
                n = "Cells%d" % k
                if n in taken:
                    continue
                try:
                    if len(made) % 2 == 0:
                        setattr(sub, n, 5)
                    else:
                        sub.new_space(n)
                    made.append(n)
                except Exception:
                    pass
                if len(made) == 2:
                    break
            got = []
            for i in range(3):
                try:
                    got.append(s.new_cells(formula="lambda: %d" % i).name)
                except Exception as e:
                    got.append(type(e).__name__)
            run.mach.events.append("autonames %s in %s: %s -> %s" % (objpath(s), objpath(sub), made, got))
            ctx.count("autoname_epilogues", 1, "reach")
            oracle.check_model(m, {"op": "new_cells-without-a-name"})
            break


PROP = C12()
