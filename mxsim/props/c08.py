"""C08 - reported dependencies are exactly the calls made; graph and cache agree."""
from .base import PropBase, Violation
from .. import machine, gen, grammar, probe, refmodel as rm, history
from ..world import norm, objpath
from . import c02, c01, c06
import modelx as mx
from modelx.core.cells import Cells

WEIGHTS = {"eval": 8, "set_value": 2.5, "clear": 2.5, "set_ref": 1.0, "gc": 0.2}


def swarm(rng):
    cfg = c06.swarm(rng)
    cfg.update({"p_uncached": rng.choice([0.0, 0.3, 0.5]), "recalc": False, "try": True, "p_try": 0.3, "p_def": 0.6,
                "p_fault": rng.choice([0.0, 0.2, 0.4]), "n_steps": rng.choice([12, 20, 30])})
    pr = rng.choice([None, ["attr_child_model", "attr_child", "attr_space_model", "attr_space"], ["attr_model", "attr_other"]])
    if pr:
        cfg["prefer_read"] = pr
    return cfg


def node_id(n):
    o = n.obj
    if isinstance(o, Cells):
        p = objpath(o.parent)
        if hasattr(n, "args") and len(n._impl) > 1:
            return (p, o.name, tuple(n.args))
        return ("obj", p, o.name)
    # reference proxy
    try:
        par = o.parent
        return ("ref", objpath(par) if par.parent is not None or not hasattr(par, "spaces") or True else "", o.name)
    except Exception:
        return ("?", repr(o))


def raw_id(node):
    impl = node[0]
    itf = impl.interface
    p = objpath(itf.parent) if isinstance(itf, Cells) else objpath(itf)
    if len(node) > 1:
        return (p, itf.name if isinstance(itf, Cells) else None, tuple(node[1]))
    return ("obj", p, itf.name)


def global_names(f):
    """Global names the compiled formula loads (static), honouring local scopes of lets, comprehensions, nested lambdas."""
    names = []

    def add(n):
        if n not in names:
            names.append(n)

    def walk(e, local):
        k = e[0]
        if k == "c":
            return
        if k == "p":
            if e[1] not in local:
                add(e[1])
            return
        if k == "n":
            if e[1] not in local:
                add(e[1])
            return
        if k == "a":
            head(e[1], local)
            return
        if k == "call":
            _, recv, name, args, spell = e[:5]
            if recv:
                head(recv, local)
            elif name not in local:
                add(name)
            for a in args:
                walk(a, local)
            return
        if k in ("bin", "cmp"):
            walk(e[2], local); walk(e[3], local); return
        if k == "if":
            walk(e[1], local); walk(e[2], local); walk(e[3], local); return
        if k == "bi":
            if e[1] not in local:
                add(e[1])
            for a in e[2]:
                walk(a, local)
            return
        if k == "sum":
            _, var, n, body, form = e
            add("sum"); add("range")
            walk(body, local | {var})
            return
        if k == "lst":
            for a in e[1]:
                walk(a, local)
            return
        if k == "nested":
            walk(e[2], {e[1]})       # a nested lambda sees only its own parameter as local
            walk(e[3], local)
            return

    def head(path, local):
        h = path[0]
        if isinstance(h, str) and h not in local:
            add(h)
        for seg in path:
            if not isinstance(seg, str):
                for a in seg[1]:
                    walk(a, local)

    local = {p for p, _ in f["params"]}
    if not f.get("noprobe"):
        add("P"); add("_space")
    for let in (f.get("lets", []) if f["style"] == "def" else []):
        if let[0] in ("try", "guard"):
            walk(let[2], local); walk(let[3], local); local = local | {let[1]}
        else:
            walk(let[1], local); local = local | {let[0]}
    walk(f["ret"], local)
    if f.get("rfilter"):
        add("R"); add("_space")
    return names


class C08(c06.C06):
    id = "C08"
    level = "exploration"
    rule = ("one case = one generated model (cached and uncached cells, references read by name and by attribute path, "
            "formulas that catch callee failures) and a seeded history of evaluations (some with an injected fault), cache "
            "hits, value assignments and clears; after every step, for EVERY element holding a value: preds() == the "
            "evaluator's callees under the pass-through rule for uncached cells, succs() == the inverse, precedents() == "
            "preds + references read by name (static) + references read by attribute path during that computation; the "
            "model's dependency graph has exactly the held elements (plus object nodes of uncached cells called by them) as "
            "nodes and exactly the evaluator's call edges, and is acyclic; non-trivial = some checked element had a "
            "predecessor reached through an uncached cells or an attribute-path reference; distinct = event-log digest")
    tiers = {"quick": {"budget_s": 45, "timeout_s": 60}, "thorough": {"budget_s": 900, "timeout_s": 120}}
    reach_probes = ["reach/elements_checked", "reach/uncached_passthrough_seen", "reach/attr_precedent_seen", "reach/failed_evaluations"]
    assumptions = ["lists are compared as sets", "tracegraph nodes are read as (object, key) tuples; static spaces only"]

    swarm_fn = staticmethod(swarm)
    weights = WEIGHTS

    def execute(self, ctx):
        c06.C06.execute(self, ctx)

    def step(self, op):
        mach, ctx = self.mach, self.ctx
        if op["op"] == "eval" and op.get("fault"):
            self.eval_with_fault(op)
        else:
            if op["op"] == "eval" and ctx.doc is None and mach.frng.random() < ctx.cfg.get("p_fault", 0.0) \
                    and history.eval_target_exists(mach.ref, op):
                # decide a fault: a probe site of the fault-free evaluation
                ev2 = grammar.Evaluator(mach.ref)
                ev2.memo = dict(self.ev.memo); ev2.inputs = set(self.ev.inputs)
                ev2.edges = {k: set(v) for k, v in self.ev.edges.items()}
                r = ev2.top_call(op["loc"], op["name"], list(op["args"]))
                if ev2.log and r[0] != "unknown":
                    site = ev2.log[mach.frng.randrange(len(ev2.log))]
                    op["fault"] = {"faults": [{"site": [site[0], site[1], site[2], list(site[3])], "occ": 0,
                                               "exc": mach.frng.choice(["ValueError", "KeyError", "ZeroDivisionError"])}]}
                    self.eval_with_fault(op)
                    self.graph(op)
                    return
            c06.C06.step(self, op)
        if op["op"] not in ("gc", "set_recalc"):
            self.graph(op)

    def eval_with_fault(self, op):
        mach, ev, ctx = self.mach, self.ev, self.ctx
        if not history.eval_target_exists(mach.ref, op):
            return
        plan = op["fault"]
        ev.plan = probe.FaultPlan(plan.get("faults", ()), ())
        probe.arm(probe.FaultPlan(plan.get("faults", ()), ()))
        live = mach.world.apply(op)
        probe.arm(None)
        r = ev.top_call(op["loc"], op["name"], list(op["args"]))
        ev.plan = None
        if r[0] == "unknown" or getattr(ev, "poisoned", False):
            c06.raise_giveup(self)
        want = c01.ev_outcome(r)
        if want["st"] != "ok":
            ctx.count("failed_evaluations", 1, "reach")
        mach.events.append("faulted eval %s -> %s" % (history.qkey(op), history.short(live)))
        if not c01.agree(live, want):
            raise Violation("C08/value-differs-under-fault", {"request": op, "modelx": live, "evaluator": want})
        self.compare_held(op)

    # ------------------------------------------------------------------
    def graph(self, op, ignore_items=False):
        mach, ev, ctx = self.mach, self.ev, self.ctx
        m = mach.world.m
        # 1. nodes and edges of the model's graph
        exp_nodes = set(ev.memo)
        exp_edges = set()
        for caller, callees in ev.edges.items():
            if caller not in ev.memo:
                continue
            for c in callees:
                exp_edges.add((c, caller))
                if c[0] == "obj":
                    exp_nodes.add(c)
        got_nodes = {raw_id(n) for n in m.tracegraph.nodes}
        got_edges = {(raw_id(a), raw_id(b)) for a, b in m.tracegraph.edges}
        # object nodes of uncached cells may outlive their callers as isolated leftovers (they are not elements);
        # they must be present when a held element called the uncached cells, and edges are compared exactly below
        got_nodes = {n for n in got_nodes if n[0] != "obj" or n in exp_nodes}
        if ignore_items:
            # (a caller whose corpus has ItemSpaces that it does not follow as elements)
            got_nodes = {n for n in got_nodes if n[1] is not None}
            got_edges = {(a, b) for a, b in got_edges if a[1] is not None and b[1] is not None}
            exp_edges = {(a, b) for a, b in exp_edges if a[1] is not None and b[1] is not None}
        if got_nodes != exp_nodes:
            extra = sorted(map(repr, got_nodes - exp_nodes))[:5]
            missing = sorted(map(repr, exp_nodes - got_nodes))[:5]
            raise Violation("C08/graph-nodes-differ/%s/%s" % ("extra" if extra else "missing", op["op"]),
                            {"extra": extra, "missing": missing, "after": c06.strip(op)})
        if got_edges != exp_edges:
            extra = sorted(map(repr, got_edges - exp_edges))[:5]
            missing = sorted(map(repr, exp_edges - got_edges))[:5]
            raise Violation("C08/graph-edges-differ/%s/%s" % ("extra" if extra else "missing", op["op"]),
                            {"extra": extra, "missing": missing, "after": c06.strip(op)})
        import networkx as nx
        if not nx.is_directed_acyclic_graph(m.tracegraph):
            raise Violation("C08/graph-cyclic/" + op["op"], {})
        # 2. listings of every held, computed element
        inv = {}
        for caller, callees in ev.edges.items():
            for c in callees:
                inv.setdefault(c, set()).add(caller)
        for el in list(ev.memo):
            s = mach.ref.space(el[0])
            if s is None:
                continue
            d, c = gen.visible_cells(s)[el[1]]
            live = mach.world.space(el[0]).cells[el[1]]
            ctx.count("elements_checked", 1, "reach")
            skip = (lambda n: hasattr(n.obj, "cells")) if ignore_items else (lambda n: False)
            preds = {node_id(n) for n in live.preds(*el[2]) if not skip(n)}
            want = set(ev.edges.get(el, set()))
            if ignore_items:
                want = {x for x in want if x[1] is not None}
            if preds != want:
                raise Violation("C08/preds-differ/%s" % ("extra" if preds - want else "missing"),
                                {"element": repr(el), "modelx": sorted(map(repr, preds)), "evaluator": sorted(map(repr, want)), "after": c06.strip(op)})
            succs = {node_id(n) for n in live.succs(*el[2]) if not skip(n)}
            wants = {x for x in inv.get(el, set()) if x in ev.memo}
            if succs != wants:
                raise Violation("C08/succs-differ/%s" % ("extra" if succs - wants else "missing"),
                                {"element": repr(el), "modelx": sorted(map(repr, succs)), "evaluator": sorted(map(repr, wants)), "after": c06.strip(op)})
            if any(x[0] == "obj" for x in want):
                ctx.count("uncached_passthrough_seen", 1, "reach")
                ctx.nontrivial = True
            if el in ev.inputs or c.formula is None:
                continue
            prec = {node_id(n) for n in live.precedents(*el[2]) if not skip(n)}
            inst = ev.sinst(s)
            vrefs = set()
            for g in global_names(c.formula):
                try:
                    r = ev.lookup(inst, g)
                except grammar.EvalRaise:
                    continue
                except grammar.EvalUnknown:
                    continue
                if r[0] == "val" and len(r) > 2 and r[2] and r[2][0] == "ref":
                    vrefs.add(("ref", r[2][1], g))
            arefs = {("ref", a, b) for a, b in ev.attrreads.get(el, set())}
            if arefs:
                ctx.count("attr_precedent_seen", 1, "reach")
                ctx.nontrivial = True
            wantp = want | vrefs | arefs
            # references read by attribute inside uncached callees may be listed too (they are handed on to the caller)
            allowed = wantp | {("ref", a, b) for a, b in ev.attrpass.get(el, set())}
            if ignore_items:
                # references read inside ItemSpaces are attributed differently by the two sides: only what must be there
                allowed = prec | wantp
                wantp = {x for x in wantp if "[" not in str(x[1])}
            if not (wantp <= prec <= allowed):
                extra = sorted(map(repr, prec - allowed))
                missing = sorted(map(repr, wantp - prec))
                raise Violation("C08/precedents-differ/%s" % ("extra" if extra else "missing"),
                                {"element": repr(el), "extra": extra, "missing": missing, "after": c06.strip(op)})


PROP = C08()
