"""C15 - an exported package computes the same values as the model (export-twin; no fault or schedule dimension
in the statement: seeded differential execution, the package running in a subprocess where importing modelx is blocked)."""
import os, sys, json, subprocess
import modelx as mx
from .base import PropBase, Violation
from .. import machine, gen, history, probe, refmodel as rm
from ..world import norm
from . import c02

HIST_W = {"eval": 2, "set_ref": 2, "set_formula": 1.5, "new_cells": 2, "del_cells": 0.5, "rename_cells": 0.4, "set_cached": 1,
          "bases": 1.5, "new_space": 1, "sformula": 0.8}


def swarm(rng):
    cfg = c02.swarm(rng)
    cfg.update({"n_spaces": rng.choice([2, 3, 4]), "n_cells": rng.choice([2, 3, 4]), "n_refs": rng.choice([1, 2, 3]),
                "n_hist": rng.choice([0, 6, 12]), "p_objref": rng.choice([0.0, 0.3]), "p_mirror": 0.4, "p_fnref": rng.choice([0.0, 0.15]),
                "p_sformula": rng.choice([0.3, 0.6]), "p_uncached": rng.choice([0.0, 0.3]), "recalc": False,
                "max_depth": rng.choice([2, 3]), "n_queries": rng.choice([8, 14, 20]), "export_refs_in_formula": False,
                "p_item_eval": 0.75, "simple_cond": True, "export_subset": True, "split_ref_names": True, "clash": False, "ancestor_params": True, "p_comp_shadow": rng.choice([0.0, 0.5]), "nested_item_eval": True,
                "prefer_read": rng.choice([["ancestor_param", "space_param"], ["attr_model", "attr_other"], []])})
    if rng.random() < 0.3:
        # names the generated code could trip over: a cells parameter called like the result variable of the generated cache
        # method or like a reference (so that keyword calls carry a global's name), ItemSpace parameters called like built-ins
        cfg["cells_param_names"] = rng.choice([["val", "k"], ["x", "m"], ["val", "y"]])
        cfg["space_param_names"] = rng.choice([["id", "type"], ["i", "j"], ["max", "j"]])
    if cfg["p_objref"]:
        # relative references in ItemSpaces are a documented limitation of the exporter: object-valued references are
        # either absolute, or the model has no parameter formulas at all
        if rng.random() < 0.5:
            cfg["objref_modes"] = ["absolute"]
        else:
            cfg["p_sformula"] = 0.0
            cfg["items"] = False
    return cfg


def _has_scope(e):
    if not isinstance(e, list) or not e:
        return False
    if e[0] in ("sum", "nested"):
        return True
    return any(_has_scope(x) for x in e[1:] if isinstance(x, list))


def _cond_scope(e):
    if not isinstance(e, list) or not e:
        return False
    if e[0] == "if" and _has_scope(e[1]):
        return True
    return any(_cond_scope(x) for x in e[1:] if isinstance(x, list))


def finding_shapes(model):
    tags = set()
    for sp in model.all_spaces():
        if sp.formula is not None and sp.formula.get("ret"):
            tags.add("parameter-formula-returns-" + ("base" if "base" in sp.formula["ret"] else "refs"))
        for n, c in sp.cells.items():
            f = c.formula
            if f and (_cond_scope(f["ret"]) or any(_cond_scope(l[-1] if l[0] != "try" else l[2]) for l in f.get("lets", []))):
                tags.add("scope-inside-conditional-test")
    return sorted(tags)


class C15(PropBase):
    id = "C15"
    level = "exploration"
    rule = ("one case = one model from a seeded history inside the documented export subset (lambda and def formulas, "
            "comprehensions, nested lambdas whose parameter shadows a reference, builtins shadowed by function-valued "
            "references, literal and pickled references, inheritance, parameter formulas with defaults, nested child spaces, "
            "cached and uncached cells), exported with Model.export and imported in a fresh subprocess in which importing "
            "modelx raises; a seeded query schedule (static cells, inherited cells, ItemSpaces incl. dynamic children, "
            "re-requests) is answered by the model and, in another order, by the package; values / exception classes "
            "must agree (formula execution counts are reported, not judged); non-trivial = a query inside an ItemSpace or on an "
            "inherited cells was compared; distinct = distinct event-log digest")
    tiers = {"quick": {"budget_s": 45, "timeout_s": 120}, "thorough": {"budget_s": 900, "timeout_s": 240}}
    reach_probes = ["reach/packages_compared", "reach/queries_compared", "reach/item_queries", "reach/nested_item_queries"]
    assumptions = ["documented export subset only: no object-valued references, no scalar-cells coercion, no IOSpecs other "
                   "than none; parameter formulas return None (returned references / base switching are silently ignored by "
                   "the exporter: known finding)", "exceptions are compared by class"]

    def execute(self, ctx):
        if ctx.doc is None:
            ctx.cfg = swarm(ctx.rng("cfg"))
        cfg = ctx.cfg
        mx.set_recalc(False)
        mach = machine.Machine(ctx.seed, cfg)
        if ctx.doc is None:
            # parameter formulas inside the subset: ret None
            orig = gen.gen_space_formula

            def sf(rng, model, space, c):
                f = orig(rng, model, space, c)
                if not cfg.get("export_refs_in_formula"):
                    f["ret"] = None
                return f
            gen.gen_space_formula = sf
            try:
                mach.build(cfg["n_spaces"], cfg["n_cells"], cfg["n_refs"])
                if mach.rng.random() < 0.2:
                    # a float reference without a literal of its own
                    sps = [""] + [x.path() for x in mach.ref.all_spaces()]
                    mach.do({"op": "set_ref", "space": mach.rng.choice(sps), "name": "zinf",
                             "value": {"t": "float", "v": mach.rng.choice([float("inf"), -float("inf")])}})
                hw = dict(HIST_W)
                if not cfg.get("p_sformula"):
                    hw.pop("sformula")
                for i in range(cfg["n_hist"]):
                    mach.do(mach.next_op(hw))
                qs = []
                for i in range(cfg["n_queries"]):
                    q = mach.g_eval()
                    if q and history.eval_target_exists(mach.ref, q):
                        qs.append(q)
            finally:
                gen.gen_space_formula = orig
            steps = list(mach.steps) + [{"op": "export", "queries": qs, "order": mach.sched.sample(range(len(qs)), len(qs))}]
        else:
            steps = ctx.doc["steps"]
            for s in steps:
                if s["op"] != "export":
                    mach.do(s, record=False)
        ctx.steps = steps
        ctx.events = mach.events
        for s in steps:
            if s["op"] == "export":
                try:
                    self.compare(ctx, mach, s)
                except Violation as v:
                    # shapes the generator never produces (known findings, only present in their witnesses) are named in
                    # the signature, so that the finding is matched by the shape and by nothing else
                    tags = finding_shapes(mach.ref)
                    if tags:
                        raise Violation("C15/shape=%s/%s" % ("+".join(tags), v.sig[4:]), v.detail)
                    raise
        ctx.nsteps = len(steps)

    def compare(self, ctx, mach, st):
        qs = st["queries"]
        if not qs:
            return
        d = ctx.tmpdir("exp")
        m = mach.world.m
        m.clear_all()
        probe.reset()
        expected = []
        for q in qs:
            r = mach.world.apply(q)
            expected.append(r)
        log_model = sorted(map(repr, [[s[0], s[1], s[2], list(s[3])] for s in probe.LOG]))
        try:
            m.export(os.path.join(d, "pkg"))
        except Exception as e:
            raise Violation("C15/export-raised/%s" % type(e).__name__, {"error": repr(e)[:300]})
        order = [i for i in st["order"] if i < len(qs)]
        wq = []
        for i in order:
            q = dict(qs[i])
            s = None
            cur = mach.ref
            for seg in q["loc"]:
                if isinstance(seg, str):
                    cur = cur.spaces.get(seg)
            c = gen.visible_cells(cur).get(q["name"]) if cur is not None else None
            q["pnames"] = [p for p, dflt in (c[1].formula["params"] if c and c[1].formula else [])]
            wq.append(q)
        json.dump(wq, open(os.path.join(d, "q.json"), "w"))
        worker = os.path.join(os.path.dirname(os.path.dirname(os.path.abspath(__file__))), "export_worker.py")
        p = subprocess.run([sys.executable, worker, d, "pkg", os.path.join(d, "q.json"), os.path.join(d, "out.json")],
                           capture_output=True, text=True, timeout=100,
                           env={k: v for k, v in os.environ.items() if k != "MODELX_VERIF"})
        if not os.path.exists(os.path.join(d, "out.json")):
            raise Violation("C15/package-worker-crashed", {"stderr": p.stderr[-600:]})
        out = json.load(open(os.path.join(d, "out.json")))
        if out.get("import_error"):
            raise Violation("C15/package-does-not-import/%s" % out["import_error"].split(":")[0], {"error": out["import_error"]})
        if out.get("modelx_loaded"):
            raise Violation("C15/package-imports-modelx", {})
        ctx.count("packages_compared", 1, "reach")
        self.features(ctx, mach)
        for i, res in zip(order, out["results"]):
            q, exp = qs[i], expected[i]
            ctx.count("queries_compared", 1, "reach")
            item = any(not isinstance(s, str) for s in q["loc"])
            if item:
                ctx.count("item_queries", 1, "reach")
                if sum(1 for s in q["loc"] if not isinstance(s, str)) > 1:
                    ctx.count("nested_item_queries", 1, "reach")
                ctx.nontrivial = True
            got = {"st": "ok", "val": norm(res[1])} if res[0] == "ok" else {"st": "rej", "exc": res[1]}
            if exp.get("st") != "ok":
                # the model itself has no value here: the statement is about values the model returns
                ctx.count("model_raised_not_judged", 1, "reach")
                mach.events.append("q %s model=%s (not judged)" % (history.qkey(q), history.short(exp)))
                continue
            mach.events.append("q %s model=%s package=%s" % (history.qkey(q), history.short(exp), history.short(got)))
            if not history.same(exp, got):
                raise Violation("C15/value-differs/%s!=%s%s" % (history.short_kind(exp), history.short_kind(got), "/in-itemspace" if item else ""),
                                {"query": q, "model": exp, "package": got})
        # informational only: the statement is about values, not about how often the package runs a formula
        log_pkg = sorted(map(repr, [x for x in out.get("log", []) if x[1] != "_formula"]))
        log_model = [x for x in log_model if "'_formula'" not in x]
        ctx.count("exec_multiset_equal" if log_model == log_pkg else "exec_multiset_differs", 1, "reach")

    def simplify(self, doc):
        """Candidates with fewer queries in the export step (halves, then single removals)."""
        steps = doc["steps"]
        for k, st in enumerate(steps):
            if st.get("op") != "export" or len(st["queries"]) < 2:
                continue
            qs = st["queries"]
            n = len(qs)
            cuts = [(0, n // 2), (n // 2, n)] if n > 3 else []
            cuts += [(i, i + 1) for i in range(n)]
            for a, b in cuts:
                keep = [i for i in range(n) if not (a <= i < b)]
                remap = {old: new for new, old in enumerate(keep)}
                st2 = dict(st, queries=[qs[i] for i in keep], order=[remap[i] for i in st["order"] if i in remap])
                yield dict(doc, steps=steps[:k] + [st2] + steps[k + 1:])

    def features(self, ctx, mach):
        """Which shapes of the documented subset the exported model contained (reach counters per package)."""
        from .. import grammar
        seen = set()
        for sp in mach.ref.all_spaces():
            if sp.bases:
                seen.add("space_with_bases")
            if sp.formula is not None:
                seen.add("param_formula")
                if any(d is not None for p, d in sp.formula["params"]):
                    seen.add("param_formula_default")
                if isinstance(sp.parent, rm.RSpace):
                    seen.add("nested_param_formula")
            if isinstance(sp.parent, rm.RSpace):
                seen.add("child_space")
            for n, c in sp.cells.items():
                if c.formula is None:
                    continue
                src = grammar.render(n, c.formula)
                seen.add("style_" + c.formula["style"])
                if not c.is_cached:
                    seen.add("uncached_cells")
                for pat, tag in (("sum([", "list_comprehension"), ("for t in", "comprehension_any"), ("(lambda ", "nested_lambda"),
                                 ("_model.", "model_attr"), ("_space.", "space_attr"), ("try:", "try_except"),
                                 ('"""', "docstring"), ("=", "kw_or_default")):
                    if pat in src:
                        seen.add(tag)
                if "sum(" in src.replace("sum([", ""):
                    seen.add("generator_expression")
            for n, r in list(sp.refs.items()) + list(mach.ref.refs.items()):
                v = r.value
                if isinstance(v, (rm.RSpace, rm.RCells)):
                    seen.add("object_reference")
                elif isinstance(v, tuple) and v and v[0] == "fn":
                    seen.add("function_reference")
        for t in sorted(seen):
            ctx.count(t, 1, "features")


PROP = C15()
