"""C11 - rejected edits change nothing; the inheritance relation stays well-formed."""
import re
from .base import PropBase, Violation
from .. import history, hostile, describe, refmodel as rm, gen
from ..world import objpath
from . import c02


def swarm(rng):
    cfg = c02.swarm(rng)
    cfg["p_hostile"] = rng.choice([0.3, 0.5, 0.7])
    cfg["focus"] = rng.choice(["mixed", "struct", "refs", "values"])
    cfg["n_steps"] = rng.choice([10, 16, 24])
    cfg["relative_outside"] = rng.random() < 0.3
    if rng.random() < 0.35:
        # wide and deep inheritance between top-level spaces: rejections that arise two or more levels below the edited space
        cfg.update({"tops": ["A", "B", "C", "D", "E", "F"], "n_spaces": 6, "max_depth": 1, "p_bases": 0.9, "focus": "struct",
                    "p_sformula": 0.0})
        if rng.random() < 0.4:
            # a lattice in which taking an edge or a space away leaves a space further down without a linearisation
            cfg.update({"lattice": rng.choice(["remove", "delete", "delete_nested"]), "p_hostile": 0.7, "n_steps": 10})
    return cfg


def _cells(space, name, v):
    return {"op": "new_cells", "space": space, "name": name, "is_cached": True,
            "formula": {"style": "lambda", "params": [], "ret": ["c", v]}}


def _space(name, bases=()):
    return {"op": "new_space", "parent": "", "name": name, "bases": list(bases)}


LATTICES = {
    # B without its direct base E linearises B, D, E, C; A(B, C, E) then has no order
    "remove": [_space("E"), _cells("E", "f", 1005), _space("C"), _cells("C", "f", 1003), _space("D", ["E"]),
               _space("B", ["D", "C", "E"]), _space("A", ["B", "C", "E"])],
    # without C, B(E, D) linearises B, E, F, D; A(B, D, F) then has no order
    "delete": [_space("F"), _cells("F", "f", 1006), _space("D"), _cells("D", "f", 1004), _space("E", ["F"]), _space("C", ["F"]),
               _cells("C", "g", 1013), _space("B", ["E", "D", "C"]), _space("A", ["B", "D", "F"])],
    # the same, but the space whose removal breaks A is a CHILD of the space that is deleted
    "delete_nested": [_space("F"), _cells("F", "f", 1006), _space("D"), _cells("D", "f", 1004), _space("E", ["F"]), _space("C"),
                      {"op": "new_space", "parent": "C", "name": "U", "bases": ["F"]}, _cells("C.U", "g", 1013),
                      _space("B", ["E", "D", "C.U"]), _space("A", ["B", "D", "F"])],
}


def gen_path(p):
    """Generalise a diff path: names -> *."""
    p = re.sub(r"\.(spaces|cells|refs|inputs)\.[^.:\[]+", r".\1.*", p)
    return p.split(":")[0]


class RejectOracle(history.Oracle):
    def start(self):
        self.snap = None
        self.pool = []

    def propose(self):
        mach = self.mach
        if mach.sched.random() < self.run.cfg.get("p_hostile", 0.5):
            cands = hostile.candidates(mach)
            if cands:
                # a rejection reason first, then one of its instances: rare reasons are drawn as often as common ones
                whys = sorted({c.get("why", "?") for c in cands})
                why = whys[mach.sched.randrange(len(whys))]
                cands = [c for c in cands if c.get("why", "?") == why]
                op = dict(cands[mach.sched.randrange(len(cands))])
                self.ctx.count(op.get("why", "?"), 1, "hostile_generated")
                return op
        return None

    def before(self, op):
        if op["op"] in ("eval", "gc"):
            self.snap = None
            return
        self.snap = describe.model_desc(self.mach.world.m)

    def after(self, op, out):
        if self.snap is None or out["st"] == "skip":
            return
        if out["st"] == "rej":
            self.ctx.count(op["op"] + ":" + str(out.get("exc")), 1, "rejections")
            if op.get("why"):
                self.ctx.count(op["why"], 1, "hostile_rejected")
            self.ctx.nontrivial = True
            try:
                after = describe.model_desc(self.mach.world.m)
            except Exception as e:
                # the model could be described before the edit was refused
                raise Violation("C11/rejected-edit-left-the-model-unreadable/%s/%s/%s" % (op["op"], out.get("exc"), type(e).__name__),
                                {"op": {k: v for k, v in op.items() if k != "formula"}, "outcome": out, "error": str(e)[:200]})
            d = describe.diff(self.snap, after)
            if d:
                raise Violation("C11/rejected-edit-mutated/%s/%s/%s" % (op["op"], out.get("exc"), gen_path(d)),
                                {"op": {k: v for k, v in op.items() if k != "formula"}, "outcome": out, "diff": d})
        else:
            if op.get("why"):
                self.ctx.count(op["why"], 1, "hostile_accepted")
            self.wellformed(op)

    def wellformed(self, op):
        """After an accepted edit: acyclic bases, a C3 linearisation for every space (CPython's own MRO over the
        mirrored direct bases must exist and equal what modelx reports), valid public names."""
        mach = self.mach
        if op["op"] not in ("new_space", "add_bases", "remove_bases", "del_space", "rename_space", "new_cells",
                            "rename_cells", "set_ref"):
            return
        def walk(sp_):
            for n, ch in sp_.spaces.items():
                if not (isinstance(n, str) and n.isidentifier() and not n.startswith("_")):
                    raise Violation("C11/invalid-name-accepted/" + op["op"], {"name": n, "in": objpath(sp_)})
                for cn in ch.cells:
                    if not (isinstance(cn, str) and cn.isidentifier() and not cn.startswith("_")):
                        raise Violation("C11/invalid-name-accepted/" + op["op"], {"name": cn, "in": objpath(ch)})
                walk(ch)
        walk(mach.world.m)
        if rm.has_cycle(mach.ref):
            raise Violation("C11/accepted-cyclic-bases/" + op["op"], {"op": op})
        for s in mach.ref.all_spaces():
            try:
                want = [x.path() for x in rm.mro(s)[1:]]
            except rm.NoMRO as e:
                raise Violation("C11/accepted-no-linearisation/" + op["op"], {"op": op, "space": s.path()})
            live = mach.world.space(s.path())
            got = [objpath(b) for b in live.bases]
            if got != want:
                raise Violation("C11/bases-not-c3/" + op["op"], {"space": s.path(), "modelx": got, "cpython": want})
            for n in list(live.cells) + list(live.spaces):
                if not (isinstance(n, str) and n.isidentifier() and not n.startswith("_")):
                    raise Violation("C11/invalid-name-accepted/" + op["op"], {"name": n, "space": s.path()})
        for n in mach.world.m.spaces:
            if not (n.isidentifier() and not n.startswith("_")):
                raise Violation("C11/invalid-name-accepted/" + op["op"], {"name": n})


class C11(PropBase):
    id = "C11"
    level = "fault_enumeration"
    rule = ("one case = one seeded history in which, at seeded points, the editor issues hostile operations drawn from "
            "the full list of invalid operations applicable to the current state (bad names, cross-kind clashes, cyclic "
            "or non-linearisable bases, deleting/renaming derived members, malformed formula text, None/arity/"
            "non-scalar/uncached assignments, unknown targets); every operation that raises is followed by a "
            "before==after comparison of the public description (definitions and inputs) and the fresh-twin value check; "
            "non-trivial = at least one operation was rejected; distinct = distinct event-log digest")
    tiers = {"quick": {"budget_s": 45, "timeout_s": 60}, "thorough": {"budget_s": 900, "timeout_s": 120}}
    reach_probes = ["reach/twin_checks", "reach/edit_rejected"]
    assumptions = ["calculated (non-input) values may be discarded by a rejected edit; definitions and inputs may not",
                   "no claim about which exception type is raised"] + c02.PROP.assumptions[2:]

    def execute(self, ctx):
        if ctx.doc is None:
            ctx.cfg = swarm(ctx.rng("cfg"))
        cfg = ctx.cfg
        run = history.Run(ctx, cfg, [RejectOracle(), history.TwinOracle("C11")])
        if ctx.doc is None:
            if cfg.get("lattice"):
                for op in LATTICES[cfg["lattice"]]:
                    run.step(op)
            run.generate(c02.WEIGHTS[cfg["focus"]], cfg["n_steps"], cfg["p_check"], build=not cfg.get("lattice"))
        else:
            run.replay(ctx.doc["steps"])
        run.finish()


PROP = C11()
