"""C02 - no stale value survives any edit (fresh-twin oracle)."""
from .base import PropBase, Violation
from .. import machine, gen, refmodel as rm, refops, probe
from ..world import World
import modelx as mx


def swarm(rng):
    cfg = {
        "n_spaces": rng.choice([2, 3, 3, 4]),
        "n_cells": rng.choice([2, 3, 4]),
        "n_refs": rng.choice([1, 2, 3]),
        "n_steps": rng.choice([8, 14, 20, 30]),
        "p_uncached": rng.choice([0.0, 0.2, 0.5]),
        "p_bases": rng.choice([0.2, 0.5, 0.8]),
        "p_sformula": rng.choice([0.0, 0.25, 0.5]),
        "p_modelref": rng.choice([0.2, 0.5]),
        "p_objref": rng.choice([0.0, 0.15, 0.3]),
        "max_depth": rng.choice([1, 2, 2]),
        "depth": rng.choice([1, 2, 2, 3]),
        "recalc": rng.random() < 0.25,
        "p_check": rng.choice([0.15, 0.3]),
        "focus": rng.choice(["mixed", "refs", "struct", "values", "mixed"]),
    }
    pr = rng.choice([None, None, ["attr_child_model", "attr_child", "attr_space_model"],
                     ["attr_model", "attr_other", "attr_parent"], ["name", "model_name"]])
    if pr:
        cfg["prefer_read"] = pr
    pc = rng.choice([None, None, ["child", "other", "parent"], ["child_item", "other_item"], ["objref", "spaceref"]])
    if pc:
        cfg["prefer_call"] = pc
    return cfg


WEIGHTS = {
    "mixed": {"eval": 6, "set_ref": 3, "del_ref": 1, "set_formula": 2, "new_cells": 1.5, "del_cells": 1,
              "rename_cells": 0.7, "set_cached": 0.7, "set_value": 1.5, "clear": 1, "new_space": 0.8,
              "del_space": 0.4, "rename_space": 0.4, "bases": 1.2, "sformula": 0.6, "gc": 0.2},
    "refs": {"eval": 6, "set_ref": 6, "del_ref": 2.5, "set_formula": 1, "new_cells": 1, "set_cached": 0.5,
             "set_value": 0.5, "bases": 0.7, "new_space": 0.5, "gc": 0.1},
    "struct": {"eval": 6, "new_space": 1.5, "del_space": 1, "rename_space": 1, "bases": 3, "new_cells": 2,
               "del_cells": 2, "rename_cells": 1.5, "set_formula": 2, "set_ref": 1, "sformula": 1.5, "set_cached": 1},
    "values": {"eval": 7, "set_value": 4, "clear": 3, "set_ref": 1.5, "set_formula": 1, "set_cached": 1, "gc": 0.3},
}


class C02(PropBase):
    id = "C02"
    level = "exploration"
    rule = ("one case = one seeded history of edits/evaluations/cache operations on a generated model, checked at "
            "seeded checkpoints by the fresh-twin oracle (live model vs a model rebuilt from the accepted edits only); "
            "non-trivial = at least one query at a checkpoint had a value held before an intervening accepted edit "
            "and was re-requested after it; distinct = distinct event-log digest")
    tiers = {"quick": {"budget_s": 45, "timeout_s": 60}, "thorough": {"budget_s": 900, "timeout_s": 120}}
    reach_probes = ["reach/stale_candidate_rerequested", "reach/twin_checks", "reach/edit_rejected"]

    def execute(self, ctx):
        if ctx.doc is None:
            ctx.cfg = swarm(ctx.rng("cfg"))
        cfg = ctx.cfg
        mx.set_recalc(bool(cfg.get("recalc")))
        mach = machine.Machine(ctx.seed, cfg)
        st = State(ctx, mach)
        if ctx.doc is None:
            mach.build(cfg["n_spaces"], cfg["n_cells"], cfg["n_refs"])
            ctx.steps.extend(mach.steps)
            for s in mach.steps:
                st.after(s, None)
            w = WEIGHTS[cfg["focus"]]
            for i in range(cfg["n_steps"]):
                op = mach.next_op(w)
                st.step(op)
                if mach.sched.random() < cfg["p_check"]:
                    st.step({"op": "checkpoint", "extra": st.extra_queries(2)})
            st.step({"op": "checkpoint", "extra": st.extra_queries(4)})
        else:
            for op in ctx.doc["steps"]:
                st.step(op)
            if not ctx.doc["steps"] or ctx.doc["steps"][-1].get("op") != "checkpoint":
                st.step({"op": "checkpoint", "extra": []}, record=False)
        ctx.events = mach.events
        ctx.nsteps = len(mach.steps)
        ctx.stats["ops"] = mach.stats["ops"]
        ctx.stats["rejected"] = mach.stats["rejected"]
        ctx.count("edit_rejected", sum(mach.stats["rejected"].values()), "reach")


class State:
    def __init__(self, ctx, mach):
        self.ctx = ctx
        self.mach = mach
        self.queries = []         # eval ops requested so far (deduped)
        self.qkeys = set()
        self.held_at = {}         # qkey -> number of accepted edits when last evaluated
        self.last_cp = 0

    def step(self, op, record=True):
        if op["op"] == "checkpoint":
            if record:
                self.ctx.steps.append(op)
            self.checkpoint(op)
            return
        out = self.mach.do(op, record=False)
        self.mach.steps.append(op)
        if record:
            self.ctx.steps.append(op)
        self.after(op, out)

    def after(self, op, out):
        if op["op"] == "eval" and out is not None and out["st"] != "skip":
            k = repr((op["loc"], op["name"], op["args"]))
            if k not in self.qkeys:
                self.qkeys.add(k)
                self.queries.append(op)
            if out["st"] == "ok":
                prev = self.held_at.get(k)
                if prev is not None and prev < len(self.mach.edits):
                    self.ctx.count("stale_candidate_rerequested", 1, "reach")
                    self.ctx.nontrivial = True
                self.held_at[k] = len(self.mach.edits)

    def extra_queries(self, n):
        out = []
        for _ in range(n):
            op = self.mach.g_eval()
            if op:
                out.append(op)
        return out

    def checkpoint(self, op):
        mach = self.mach
        qs = list(self.queries) + list(op.get("extra") or [])
        if not qs:
            return
        self.ctx.count("twin_checks", 1, "reach")
        twin = build_twin(mach.edits, "T")
        try:
            if twin is None:
                return
            tw, bad = twin
            if bad is not None:
                raise Violation("C02/twin-rejects-edit/" + bad["op"], {"edit": bad})
            for q in qs:
                if not refops.precond(mach.ref, q) or not eval_target_exists(mach.ref, q):
                    continue
                probe.arm(None)
                live = mach.world.apply(q)
                twv = tw.apply(q)
                self.ctx.count("twin_queries", 1, "reach")
                k = repr((q["loc"], q["name"], q["args"]))
                if live["st"] == "ok":
                    prev = self.held_at.get(k)
                    if prev is not None and prev < len(mach.edits):
                        self.ctx.count("stale_candidate_rerequested", 1, "reach")
                        self.ctx.nontrivial = True
                    self.held_at[k] = len(mach.edits)
                mach.events.append("cp %s live=%s twin=%s" % (k, short(live), short(twv)))
                if not same(live, twv):
                    sig, culprit = self.blame(q, live, twv)
                    raise Violation(sig, {"query": q, "live": live, "twin": twv, "culprit": culprit})
        finally:
            if twin is not None:
                try:
                    twin[0].m.close()
                except Exception:
                    pass

    def blame(self, q, live, twv):
        """Find the first step after which the mismatch is observable; classify that edit."""
        steps = [s for s in self.mach.steps if s["op"] != "checkpoint"]
        kind = "%s!=%s" % (short_kind(live), short_kind(twv))
        lo = 0
        culprit = None
        try:
            for j in range(1, len(steps) + 1):
                if steps[j - 1]["op"] in ("eval", "gc"):
                    continue
                mm, last = mismatch_after(self.mach.seed, self.mach.cfg, steps[:j], q, j)
                if mm:
                    culprit = steps[j - 1]
                    if last is not None and last.get("st") == "rej":
                        return "C02/rejected-edit-changed-answers/%s" % (classify_edit(culprit),), culprit
                    break
        except Exception as e:
            culprit = None
        if culprit is None:
            return "C02/stale/%s/edit=?" % kind, None
        return "C02/stale/%s/edit=%s" % (kind, classify_edit(culprit)), culprit


def classify_edit(op):
    k = op["op"]
    if k == "set_ref":
        return "set_ref:%s:%s:%s" % ("model" if not op.get("space") else "space", op["value"]["t"], op.get("mode") or "plain")
    if k in ("clear_at", "clear", "clear_all", "space_clear_cells", "space_clear_all", "set_value"):
        return k
    return k


def mismatch_after(seed, cfg, steps, q, tag):
    m2 = machine.Machine(seed, cfg, name="B%d" % tag)
    try:
        last = None
        for s in steps:
            last = m2.do(s, record=False)
        tw = build_twin(m2.edits, "BT%d" % tag)
        if tw is None or tw[1] is not None:
            return False, last
        try:
            if not eval_target_exists(m2.ref, q):
                return False, last
            a = m2.world.apply(q)
            b = tw[0].apply(q)
            return (not same(a, b)), last
        finally:
            tw[0].m.close()
    finally:
        m2.world.m.close()


def build_twin(edits, name):
    tw = World(name)
    for e in edits:
        out = tw.apply(e)
        if out["st"] != "ok":
            return tw, dict(e, twin_outcome=out)
    return tw, None


def eval_target_exists(ref, q):
    cur = ref
    for seg in q["loc"]:
        if isinstance(seg, str):
            cur = cur.spaces.get(seg) if cur is not None else None
            if cur is None:
                return False
        else:
            if cur.formula is None:
                return False
            need = [p for p, d in cur.formula["params"] if d is None]
            if not (len(need) <= len(seg[1]) <= len(cur.formula["params"])):
                return False
            ret = cur.formula.get("ret")
            if ret and "base" in ret:
                cur = ref.space(ret["base"])
                if cur is None:
                    return False
    try:
        return q["name"] in rm.derived_cells(cur)
    except rm.NoMRO:
        return False


def same(a, b):
    """The statement is about *values the model returns*: an answer that raises on both sides returns no
    value on either, so only value-vs-value and value-vs-exception disagreements count."""
    if a["st"] != "ok" and b["st"] != "ok":
        return True
    if a["st"] != b["st"]:
        return False
    if a["st"] == "ok":
        return a["val"] == b["val"]
    return a.get("exc") == b.get("exc")


def short(o):
    return o.get("val") if o["st"] == "ok" else "!" + str(o.get("exc"))


def short_kind(o):
    return "val" if o["st"] == "ok" else "exc:" + str(o.get("exc"))


PROP = C02()
