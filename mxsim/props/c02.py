"""C02 - no stale value survives any edit (fresh-twin oracle)."""
from .base import PropBase, Violation
from .. import history


def swarm(rng):
    cfg = {
        "n_spaces": rng.choice([2, 3, 3, 4]),
        "n_cells": rng.choice([2, 3, 4]),
        "n_refs": rng.choice([1, 2, 3]),
        "n_steps": rng.choice([8, 14, 20, 30]),
        "p_uncached": rng.choice([0.0, 0.2, 0.5]),
        "p_bases": rng.choice([0.2, 0.5, 0.8]),
        "p_sformula": rng.choice([0.0, 0.25, 0.5]),
        "p_modelref": rng.choice([0.2, 0.5]),
        "p_objref": rng.choice([0.0, 0.15, 0.3]),
        "max_depth": rng.choice([1, 2, 2]),
        "depth": rng.choice([1, 2, 2, 3]),
        "recalc": rng.random() < 0.25,
        "p_sformula_call": rng.choice([0.0, 0.5]),
        "p_check": rng.choice([0.15, 0.3]),
        "focus": rng.choice(["mixed", "refs", "struct", "values", "mixed"]),
    }
    if rng.random() < 0.15:
        # names that are prefixes of each other, and child spaces named like top-level ones: dotted-name arithmetic
        # (prefix tests, trailing-name matching) must not confuse A with A2, or B.A with A
        cfg["tops"] = ["A", "A2", "B", "AB"]
        cfg["children"] = ["U", "A"]
        cfg["pool"] = ["f", "f2", "g", "ga", "h", "hh"]      # cells names too (member names inside archives)
    pr = rng.choice([None, None, ["attr_child_model", "attr_child", "attr_space_model"],
                     ["attr_model", "attr_other", "attr_parent"], ["name", "model_name"]])
    if pr:
        cfg["prefer_read"] = pr
    pc = rng.choice([None, None, ["child", "other", "parent"], ["child_item", "other_item"], ["objref", "spaceref"]])
    if pc:
        cfg["prefer_call"] = pc
    return cfg


WEIGHTS = {
    "mixed": {"eval": 6, "set_ref": 3, "del_ref": 1, "set_formula": 2, "new_cells": 1.5, "del_cells": 1,
              "rename_cells": 0.7, "set_cached": 0.7, "set_value": 1.5, "clear": 1, "new_space": 0.8,
              "del_space": 0.4, "rename_space": 0.4, "bases": 1.2, "sformula": 0.6, "gc": 0.2},
    "refs": {"eval": 6, "set_ref": 6, "del_ref": 2.5, "set_formula": 1, "new_cells": 1, "set_cached": 0.5,
             "set_value": 0.5, "bases": 0.7, "new_space": 0.5, "gc": 0.1},
    "struct": {"eval": 6, "new_space": 1.5, "del_space": 1, "rename_space": 1, "bases": 3, "new_cells": 2,
               "del_cells": 2, "rename_cells": 1.5, "set_formula": 2, "set_ref": 1, "sformula": 1.5, "set_cached": 1},
    "values": {"eval": 7, "set_value": 4, "clear": 3, "set_ref": 1.5, "set_formula": 1, "set_cached": 1, "gc": 0.3},
}


class C02(PropBase):
    id = "C02"
    level = "exploration"
    rule = ("one case = one seeded history of edits/evaluations/cache operations on a generated model, checked at "
            "seeded checkpoints by the fresh-twin oracle (live model vs a model rebuilt from the accepted edits only); "
            "non-trivial = at least one query had a value held before an intervening accepted edit "
            "and was re-requested after it; distinct = distinct event-log digest")
    tiers = {"quick": {"budget_s": 45, "timeout_s": 60}, "thorough": {"budget_s": 900, "timeout_s": 120}}
    reach_probes = ["reach/stale_candidate_rerequested", "reach/twin_checks", "reach/edit_rejected"]
    assumptions = [
        "fresh evaluation on the twin is itself right (C01 decides that)",
        "answers that raise on both sides count as agreement (the statement is about returned values)",
        "generator excludes: inheritance between a space and its own ancestors/descendants; 'relative' references "
        "to targets outside the definer's tree; renaming cells that reach a sub through several bases; renaming or "
        "deleting spaces that formulas reach through the untracked attribute path _model.<space> (known finding)",
    ]

    def execute(self, ctx):
        if ctx.doc is None:
            ctx.cfg = swarm(ctx.rng("cfg"))
        cfg = ctx.cfg
        run = history.Run(ctx, cfg, [history.TwinOracle("C02")])
        if ctx.doc is None:
            gadget = ctx.rng("gadget").random() < 0.1 and not cfg.get("tops")
            if gadget:
                # a parametrised space with two bases that define the same cells, an instance of it in use: the edit that
                # switches which base the cells comes from changes no name - only what the instance has to answer
                def cells(space, name, v):
                    return {"op": "new_cells", "space": space, "name": name, "is_cached": True,
                            "formula": {"style": "lambda", "params": [["x", None]], "ret": ["bin", "+", ["p", "x"], ["c", v]]}}
                qi = {"op": "eval", "loc": ["C", ["item", [1], "idx"]], "name": "f", "args": [2], "spell": "pos"}
                qs = {"op": "eval", "loc": ["C"], "name": "f", "args": [2], "spell": "pos"}
                for op in ({"op": "new_space", "parent": "", "name": "A", "bases": []}, cells("A", "f", 100),
                           {"op": "new_space", "parent": "", "name": "B", "bases": []}, cells("B", "f", 200),
                           {"op": "new_space", "parent": "", "name": "C", "bases": ["A", "B"],
                            "formula": {"params": [["i", None]], "ret": None, "probe": False}}, qi, qs):
                    run.step(op)
            run.generate(WEIGHTS[cfg["focus"]], cfg["n_steps"], cfg["p_check"])
            if gadget:
                rr = ctx.rng("gadget-tail")
                edit = rr.choice([{"op": "remove_bases", "space": "C", "bases": ["A"]},
                                  {"op": "del_cells", "space": "A", "name": "f", "how": "delattr"},
                                  {"op": "del_space", "space": "A", "how": "delattr"}])
                # the same guards as the generator's own deletions: what the random history reaches by the path _model.A or
                # holds as an object-valued reference is left alone (the two known findings of this property)
                ra = run.mach.ref.space("A")
                ok = ra is not None
                if ok and edit["op"] == "del_space":
                    ok = run.mach.space_editable(ra) and run.mach.deletable(ra)
                if ok and edit["op"] == "del_cells":
                    ca = ra.cells.get("f")
                    ok = ca is not None and run.mach.deletable(ca)
                if not ok:
                    edit = {"op": "remove_bases", "space": "C", "bases": ["A"]}
                for op in (qi, edit, qi, qs, {"op": "checkpoint", "extra": [qi, qs], "final": True}):
                    run.step(op)
        else:
            run.replay(ctx.doc["steps"])
        run.finish()


PROP = C02()
