"""C19 - model registry: unique names, no model dropped, models isolated from each other."""
import os
import modelx as mx
from .base import PropBase, Violation
from .. import machine, describe, history, gen, refmodel as rm
from . import c02

NAMES = ["M", "N", "M_BAK1", "N_BAK1", "M_BAK2"]
WEIGHTS_IN = {"eval": 4, "set_ref": 2, "new_cells": 2, "set_formula": 1, "new_space": 1, "del_cells": 0.5, "bases": 0.7,
              "set_value": 0.7, "clear": 0.5, "del_space": 0.2}


def swarm(rng):
    cfg = c02.swarm(rng)
    cfg.update({"n_spaces": 2, "n_cells": 2, "n_refs": 1, "n_steps": rng.choice([12, 20, 30]),
                "p_registry": rng.choice([0.3, 0.5]), "cross_refs": rng.random() < 0.5, "p_sformula": 0.2,
                "p_objref": 0.0, "recalc": False})
    cfg["cross_gadget"] = cfg["cross_refs"] and rng.random() < 0.5
    return cfg


class Session:
    """Several models, each a Machine (real World + RefModel), plus the registry bookkeeping the oracle needs."""

    def __init__(self, ctx, cfg):
        self.ctx = ctx
        self.cfg = cfg
        self.machs = []        # open models
        self.closed = []
        self.events = []
        self.nmach = 0
        self.sched = machine.substream(ctx.seed, "registry")
        self.saved = []        # paths of written models
        self.dir = None
        self.linked = set()    # ids of machines holding a reference into another model

    # ---- registry invariants ---------------------------------------------
    def check_registry(self, what, expect_names=None):
        models = mx.get_models()
        names = list(models)
        live = [m.world.m for m in self.machs]
        if len(set(names)) != len(names):
            raise Violation("C19/duplicate-names/" + what, {"names": names})
        for name, itf in models.items():
            if itf.name != name:
                raise Violation("C19/registry-key-differs-from-name/" + what, {"key": name, "name": itf.name})
        for mach in self.machs:
            if not any(itf is mach.world.m for itf in models.values()):
                raise Violation("C19/model-dropped/" + what, {"model": mach.tag, "registry": names})
        for itf in models.values():
            if not any(itf is w for w in live):
                raise Violation("C19/unknown-model-registered/" + what, {"name": itf.name, "registry": names})
        for mach in self.closed:
            if any(itf is mach.world.m for itf in models.values()):
                raise Violation("C19/closed-model-still-registered/" + what, {"model": mach.tag})

    def snapshot(self, skip=None):
        out = {}
        for mach in self.machs:
            if mach is skip:
                continue
            out[mach.tag] = (describe.model_desc(mach.world.m), self.answers(mach))
        return out

    def answers(self, mach):
        res = []
        for q in mach.queries[-6:]:
            if history.eval_target_exists(mach.ref, q):
                res.append((history.qkey(q), history.short(mach.world.apply(q))))
        return res

    def compare(self, before, what, acting):
        """Definitions of every other model unchanged; values unchanged for models with no reference into `acting`."""
        for mach in self.machs:
            if mach is acting or mach.tag not in before:
                continue
            d0, a0 = before[mach.tag]
            d1 = describe.model_desc(mach.world.m)
            if id(mach) in self.linked:
                # a model holding a reference into another model: how that reference's target prints is not its definition
                d0 = dict(d0, refs={k: v for k, v in d0["refs"].items() if k != "xref"})
                d1 = dict(d1, refs={k: v for k, v in d1["refs"].items() if k != "xref"})
            diff = describe.diff(d0, d1)
            self.ctx.count("isolation_checks", 1, "reach")
            if diff:
                raise Violation("C19/other-model-definitions-changed/" + what, {"model": mach.tag, "diff": diff})
            if id(mach) in self.linked:
                continue
            a1 = self.answers(mach)
            if a0 != a1:
                raise Violation("C19/other-model-values-changed/" + what, {"model": mach.tag, "before": a0, "after": a1})

    # ---- operations ------------------------------------------------------
    def new_machine(self, name):
        self.nmach += 1
        mach = machine.Machine(machine.kernel.h64(self.ctx.seed, "m", self.nmach), self.cfg, name=name)
        mach.tag = "m%d" % self.nmach
        mach.queries = []
        return mach

    def do(self, op):
        k = op["op"]
        self.events.append(repr({x: y for x, y in op.items() if x != "inner"}) if k != "in" else "in %s %s" % (op["m"], op["inner"]["op"]))
        mach = self.by_tag(op.get("m")) if op.get("m") else None
        if k != "new_model" and k != "read_model" and op.get("m") and mach is None:
            return
        if k == "new_model":
            before = self.snapshot()
            n0 = len(mx.get_models())
            try:
                m2 = self.new_machine(op["name"])
            except Exception as e:
                self.events.append("new_model rejected %s" % type(e).__name__)
                self.compare(before, "new_model-rejected", None)
                self.check_registry("new_model-rejected")
                return
            self.machs.append(m2)
            if op.get("build"):
                m2.build(2, 2, 1)
            if len(mx.get_models()) != n0 + 1:
                raise Violation("C19/new-model-count", {"before": n0, "after": len(mx.get_models())})
            if op["name"] and m2.world.m.name != op["name"]:
                raise Violation("C19/new-model-name", {"asked": op["name"], "got": m2.world.m.name})
            self.compare(before, "new_model", m2)
            self.check_registry("new_model")
        elif k == "rename":
            before = self.snapshot(skip=mach)
            old = mach.world.m.name
            taken = op["name"] in mx.get_models() and op["name"] != old
            try:
                mach.world.m.rename(op["name"], rename_old=op.get("rename_old", False))
                ok = True
            except Exception as e:
                ok = False
            now = mach.world.m.name
            if ok and taken and not op.get("rename_old") and now != old:
                raise Violation("C19/rename-onto-taken-name-without-rename_old", {"old": old, "new": now})
            if ok and (not taken or op.get("rename_old")) and now != op["name"] and machine_valid(op["name"]):
                raise Violation("C19/rename-ineffective", {"asked": op["name"], "name": now})
            self.compare(before, "rename", mach)
            self.check_registry("rename")
        elif k == "close":
            before = self.snapshot(skip=mach)
            n0 = len(mx.get_models())
            mach.world.m.close()
            self.machs.remove(mach)
            self.closed.append(mach)
            if len(mx.get_models()) != n0 - 1:
                raise Violation("C19/close-count", {"before": n0, "after": len(mx.get_models())})
            self.compare(before, "close", mach)
            self.check_registry("close")
        elif k == "stale":
            # an operation through the handle of a model that was closed earlier: it may raise or do nothing, but it must
            # not touch an open model that now has that name
            if not self.closed:
                return
            dead = self.closed[op["i"] % len(self.closed)]
            before = self.snapshot()
            names0 = sorted(mx.get_models())
            try:
                if op["what"] == "close":
                    dead.world.m.close()
                elif op["what"] == "rename":
                    dead.world.m.rename(op["name"], rename_old=op.get("rename_old", False))
                outcome = "ok"
            except Exception as e:
                outcome = type(e).__name__
            self.events.append("stale %s -> %s" % (op["what"], outcome))
            self.ctx.count("stale_handle_operations", 1, "reach")
            if sorted(mx.get_models()) != names0:
                raise Violation("C19/closed-model-handle-changed-the-registry/" + op["what"],
                                {"before": names0, "after": sorted(mx.get_models()), "outcome": outcome})
            self.compare(before, "stale-" + op["what"], None)
            self.check_registry("stale-" + op["what"])
        elif k == "write":
            if self.dir is None:
                self.dir = self.ctx.tmpdir("c19")
            path = os.path.join(self.dir, "saved%d" % len(self.saved))
            before = self.snapshot(skip=mach)
            try:
                if op.get("zip"):
                    mach.world.m.zip(path + ".zip")
                    path += ".zip"
                else:
                    mach.world.m.write(path)
                self.saved.append((path, mach))
            except Exception as e:
                self.events.append("write failed %s" % type(e).__name__)
            self.compare(before, "write", mach)
            self.check_registry("write")
        elif k == "read_model":
            if not self.saved:
                return
            path, src = self.saved[op["i"] % len(self.saved)]
            before = self.snapshot()
            n0 = len(mx.get_models())
            try:
                kw = {"name": op["name"]} if op.get("name") else {}
                m = mx.read_model(path, **kw)
            except Exception as e:
                self.events.append("read failed %s" % type(e).__name__)
                if len(mx.get_models()) != n0:
                    raise Violation("C19/failed-read-changed-registry", {"exc": type(e).__name__})
                self.compare(before, "read_model-failed", None)
                self.check_registry("read_model-failed")
                return
            self.nmach += 1
            m2 = machine.Machine.__new__(machine.Machine)
            m2.__dict__.update(src.__dict__)
            m2.world = machine.World.__new__(machine.World)
            m2.world.m = m
            m2.world.name = m.name
            m2.world.handles = {}
            import copy
            m2.ref = copy.deepcopy(src.saved_ref[path])
            m2.tag = "m%d" % self.nmach
            m2.queries = list(src.queries)
            m2.steps, m2.edits, m2.events = [], [], []
            m2.stats = {"ops": {}, "rejected": {}, "skipped": 0}
            self.machs.append(m2)
            if len(mx.get_models()) != n0 + 1:
                raise Violation("C19/read-model-count", {"before": n0, "after": len(mx.get_models())})
            self.compare(before, "read_model", m2)
            self.check_registry("read_model")
        elif k == "in":
            before = self.snapshot(skip=mach)
            out = mach.do(op["inner"], record=False)
            if op["inner"]["op"] == "eval" and out["st"] != "skip":
                mach.queries.append(op["inner"])
            self.compare(before, "in:" + op["inner"]["op"], mach)
            self.ctx.count(op["inner"]["op"], 1, "inner_ops")
        elif k == "cross_ref":
            tgt = self.by_tag(op["to"])
            if tgt is None or tgt is mach:
                return
            sps = list(tgt.ref.all_spaces())
            if not sps:
                return
            t = sps[op["i"] % len(sps)]
            try:
                setattr(mach.world.m, "xref", tgt.world.space(t.path()))
                self.linked.add(id(mach))
                self.ctx.count("cross_refs", 1, "reach")
            except Exception:
                pass
            self.check_registry("cross_ref")
        elif k == "cross_base":
            # a space of another model offered as a base: refused, or really that object - never a namesake found by path
            tgt = self.by_tag(op["to"])
            if tgt is None or tgt is mach:
                return
            sps = list(tgt.ref.all_spaces())
            mine = list(mach.ref.all_spaces())
            if not sps or (op["how"] == "add_bases" and not mine):
                return
            t = sps[op["i"] % len(sps)]
            before = self.snapshot()
            try:
                tlive = tgt.world.space(t.path())
                if op["how"] == "new_space":
                    made = mach.world.m.new_space("ZX", bases=tlive)
                    bases = list(made.bases)
                else:
                    sub = mach.world.space(mine[op["j"] % len(mine)].path())
                    sub.add_bases(tlive)
                    bases = list(sub.bases)
                outcome = "ok"
            except Exception as e:
                outcome = type(e).__name__
            self.events.append("cross_base %s -> %s" % (op["how"], outcome))
            self.ctx.count("cross_model_bases_offered", 1, "reach")
            if outcome == "ok":
                if not any(b is tlive for b in bases):
                    raise Violation("C19/base-of-another-model-replaced-by-a-namesake/" + op["how"],
                                    {"asked": tlive.fullname, "bases": [b.fullname for b in bases]})
                return
            self.compare(before, "cross_base-rejected", None)
            self.check_registry("cross_base")
        elif k == "cross_ref_sub":
            # a space-level reference to an object of another model, in a space that has a sub space: the sub space's derived
            # reference denotes that very object (never a namesake of its own model found by the dotted name); and a space of
            # another model given to remove_bases removes nothing of this model
            tgt = self.by_tag(op["to"])
            if tgt is None or tgt is mach:
                return
            mine = list(mach.ref.all_spaces())
            sps = list(tgt.ref.all_spaces())
            if not mine or not sps:
                return
            try:
                pairs = []
                for a in mine:
                    for b in mine:
                        if b is not a and a in rm.mro(b)[1:]:
                            pairs.append((a, b))
            except rm.NoMRO:
                return
            if not pairs:
                return
            if op.get("prefer"):
                pairs = [x for x in pairs if x[0].path() == op["prefer"]] or pairs
            base, sub = pairs[op["j"] % len(pairs)]
            same = [x for x in sps if x.path() == base.path() or x.path() == sub.path()]
            t = (same or sps)[op["i"] % len(same or sps)]
            blive, slive, tlive = mach.world.space(base.path()), mach.world.space(sub.path()), tgt.world.space(t.path())
            if "xs" in blive.refs or "xs" in slive.refs:
                return
            before = self.snapshot()
            try:
                blive.set_ref("xs", tlive, refmode=op["mode"])
            except Exception as e:
                self.events.append("cross_ref_sub rejected %s" % type(e).__name__)
                self.compare(before, "cross_ref_sub-rejected", None)
                return
            try:
                got = slive.xs
                self.ctx.count("cross_model_refs_derived", 1, "reach")
                if got is not tlive:
                    raise Violation("C19/cross-model-reference-rebound-in-sub-space/mode=" + op["mode"],
                                    {"base": base.path(), "sub": sub.path(), "target": tlive.fullname, "got": getattr(got, "fullname", repr(got))})
                bases0 = [b.fullname for b in slive.bases]
                try:
                    slive.remove_bases(tlive)
                except Exception:
                    pass
                if [b.fullname for b in slive.bases] != bases0:
                    raise Violation("C19/remove_bases-of-another-models-space-removed-a-namesake", {"sub": sub.path(), "asked": tlive.fullname})
            finally:
                try:
                    del blive.xs
                except Exception:
                    pass
        elif k == "cross_ref_item":
            # a reference to a space of another model, read inside an ItemSpace: it keeps denoting that object
            tgt = self.by_tag(op["to"])
            if tgt is None or tgt is mach:
                return
            mine = [x for x in mach.ref.all_spaces() if x.formula is not None and not (x.formula.get("ret") and "base" in x.formula["ret"])]
            sps = list(tgt.ref.all_spaces())
            if not mine or not sps:
                return
            p = mine[op["j"] % len(mine)]
            # prefer a target with the same dotted path as something below p (what a path comparison would confuse)
            same = [x for x in sps if x.path() == p.path() or x.path().startswith(p.path() + ".")]
            t = (same or sps)[op["i"] % len(same or sps)]
            try:
                plive = mach.world.space(p.path())
                tlive = tgt.world.space(t.path())
                if "xr" in plive.refs:
                    return
                plive.set_ref("xr", tlive, refmode=op["mode"])
            except Exception as e:
                self.events.append("cross_ref_item rejected %s" % type(e).__name__)
                return
            try:
                args = [0 for p_, d in p.formula["params"] if d is None]
                try:
                    got = plive(*args).xr
                except Exception as e:
                    raise Violation("C19/cross-model-reference-unreadable-in-itemspace/%s" % type(e).__name__, {"space": p.path(), "target": tlive.fullname})
                self.ctx.count("cross_model_refs_read_in_itemspaces", 1, "reach")
                if got is not tlive:
                    raise Violation("C19/cross-model-reference-rebound-in-itemspace", {"space": p.path(), "target": tlive.fullname, "got": getattr(got, "fullname", repr(got))})
            finally:
                try:
                    del plive.xr
                except Exception:
                    pass
        self.ctx.nsteps += 1

    def by_tag(self, tag):
        for m in self.machs:
            if m.tag == tag:
                return m
        return None

    # ---- generation ------------------------------------------------------
    def gen(self):
        r = self.sched.random()
        rng = self.sched
        if not self.machs or (r < 0.12 and len(self.machs) < 4):
            name = rng.choice(NAMES + [None]) if rng.random() < 0.9 else rng.choice(["1x", "a b", "_m", ""])
            return {"op": "new_model", "name": name, "build": rng.random() < 0.7}
        mach = rng.choice(self.machs)
        if r < self.cfg["p_registry"]:
            k = rng.choice(["rename", "rename", "close", "write", "read_model", "new_model", "cross_ref", "cross_ref", "cross_ref", "stale"])
            if k == "stale":
                if not self.closed:
                    return None
                return {"op": "stale", "i": rng.randrange(100), "what": rng.choice(["close", "rename"]),
                        "name": rng.choice(NAMES), "rename_old": rng.random() < 0.5}
            if k == "rename":
                name = rng.choice(NAMES) if rng.random() < 0.85 else rng.choice(["1x", "a b", "_m"])
                return {"op": "rename", "m": mach.tag, "name": name, "rename_old": rng.random() < 0.5}
            if k == "close":
                if len(self.machs) <= 1:
                    return None
                return {"op": "close", "m": mach.tag}
            if k == "write":
                return {"op": "write", "m": mach.tag, "zip": rng.random() < 0.4}
            if k == "read_model":
                return {"op": "read_model", "i": rng.randrange(100), "name": rng.choice(NAMES + [None, None])}
            if k == "new_model":
                if len(self.machs) >= 4:
                    return None
                return {"op": "new_model", "name": rng.choice(NAMES + [None]), "build": rng.random() < 0.5}
            if k == "cross_ref" and self.cfg.get("cross_refs") and len(self.machs) > 1:
                other = rng.choice([m for m in self.machs if m is not mach])
                q = rng.random()
                if q < 0.3:
                    return {"op": "cross_base", "m": mach.tag, "to": other.tag, "i": rng.randrange(100), "j": rng.randrange(100),
                            "how": rng.choice(["new_space", "add_bases"])}
                if q < 0.45:
                    return {"op": "cross_ref_sub", "m": mach.tag, "to": other.tag, "i": rng.randrange(100), "j": rng.randrange(100),
                            "mode": rng.choice(["auto", "auto", "relative", "absolute"])}
                if q < 0.6:
                    return {"op": "cross_ref_item", "m": mach.tag, "to": other.tag, "i": rng.randrange(100), "j": rng.randrange(100),
                            "mode": rng.choice(["auto", "absolute"])}
                return {"op": "cross_ref", "m": mach.tag, "to": other.tag, "i": rng.randrange(100)}
            return None
        inner = mach.next_op(WEIGHTS_IN)
        return {"op": "in", "m": mach.tag, "inner": inner}


def machine_valid(name):
    return isinstance(name, str) and name.isidentifier() and not name.startswith("_")


class C19(PropBase):
    id = "C19"
    level = "exploration"
    rule = ("one case = one seeded history over 1-4 concurrently open models whose names collide on purpose (including "
            "already-suffixed names): new_model, rename with/without rename_old, close, write, read_model onto taken "
            "names, interleaved with edits and evaluations inside each model and, in some runs, object references "
            "between models; after every operation: registry keys == names, unique, every open model registered by "
            "identity, closed ones gone, descriptions of all other models unchanged, answers of unlinked models "
            "unchanged; non-trivial = at least one name collision was resolved (backup suffix) or a model was read; "
            "distinct = distinct event-log digest")
    tiers = {"quick": {"budget_s": 40, "timeout_s": 90}, "thorough": {"budget_s": 900, "timeout_s": 180}}
    reach_probes = ["reach/isolation_checks", "reach/collisions"]
    assumptions = ["the number chosen for a backup suffix is not predicted"]

    def execute(self, ctx):
        if ctx.doc is None:
            ctx.cfg = swarm(ctx.rng("cfg"))
        cfg = ctx.cfg
        mx.set_recalc(False)
        ses = Session(ctx, cfg)
        orig_write = ses.do

        def step(op):
            ctx.steps.append(op)
            # remember the RefModel of a model at the time it is written
            if op["op"] == "write":
                mach = ses.by_tag(op.get("m"))
                n0 = len(ses.saved)
                ses.do(op)
                if mach is not None and len(ses.saved) > n0:
                    import copy
                    if not hasattr(mach, "saved_ref"):
                        mach.saved_ref = {}
                    mach.saved_ref[ses.saved[-1][0]] = copy.deepcopy(mach.ref)
                return
            names0 = set(mx.get_models())
            ses.do(op)
            if op["op"] in ("new_model", "read_model", "rename"):
                names1 = set(mx.get_models())
                if any("_BAK" in n for n in names1 - names0):
                    ctx.count("collisions", 1, "reach")
                    ctx.nontrivial = True
            if op["op"] == "read_model":
                ctx.nontrivial = True

        if ctx.doc is None:
            for i in range(cfg["n_steps"]):
                op = ses.gen()
                if op is not None:
                    step(op)
                if cfg.get("cross_gadget") and i == cfg["n_steps"] // 3 and len(ses.machs) > 1:
                    # two open models with the same dotted names below the model, one of them with a sub space: what a
                    # comparison of names without the model confuses
                    a, b = ses.machs[0], ses.machs[1]
                    cells = {"op": "new_cells", "space": "ZB", "name": "g", "is_cached": True,
                             "formula": {"style": "lambda", "params": [["x", None]], "ret": ["bin", "+", ["p", "x"], ["c", 7]]}}
                    for mach, ops in ((a, [{"op": "new_space", "parent": "", "name": "ZB", "bases": []}, cells,
                                           {"op": "new_space", "parent": "", "name": "ZS", "bases": ["ZB"]}]),
                                      (b, [{"op": "new_space", "parent": "", "name": "ZB", "bases": []}, cells])):
                        for inner in ops:
                            step({"op": "in", "m": mach.tag, "inner": inner})
                    for mode in ("auto", "absolute", "relative"):
                        step({"op": "cross_ref_sub", "m": a.tag, "to": b.tag, "i": 0, "j": 0, "mode": mode, "prefer": "ZB"})
        else:
            for op in ctx.doc["steps"]:
                step(op)
        ses.check_registry("final")
        ctx.events = ses.events


PROP = C19()
