"""C01 - memoisation is transparent: values equal evaluation by the independent evaluator, computed once."""
from .base import PropBase, Violation
from .. import machine, gen, grammar, probe, refmodel as rm, history
from . import c02
import modelx as mx


def swarm(rng):
    cfg = c02.swarm(rng)
    cfg.update({"n_spaces": rng.choice([2, 3, 4]), "n_cells": rng.choice([2, 3, 4]), "n_refs": rng.choice([1, 2, 3]),
                "n_requests": rng.choice([15, 30, 50]), "p_fnref": rng.choice([0.0, 0.1]), "recalc": False,
                "p_objref": rng.choice([0.0, 0.1, 0.25]), "faults": rng.random() < 0.3, "nested_item_eval": rng.random() < 0.5,
                "max_depth": rng.choice([1, 2, 2, 3])})
    return cfg


def ev_outcome(r):
    return {"st": "ok", "val": enorm(r[1])} if r[0] == "val" else {"st": "rej", "exc": r[1]}


def enorm(v):
    if isinstance(v, tuple) and v and v[0] == "fn":
        return "<fn %s>" % v[1]
    if isinstance(v, tuple) and v and v[0] == "object":
        return "<object>"
    return v


class C01(PropBase):
    id = "C01"
    level = "exploration"
    rule = ("one case = one generated model (nested spaces, inheritance, child spaces, model/space references, shadowed "
            "builtins, ItemSpace parents) and a seeded request schedule with random spellings (positional, keyword, "
            "defaults omitted, subscription, .value, attribute call), interleaved with inspector reads and GC; every "
            "answer is compared with an independent tree-walking evaluator over the RefModel, the probe log of each "
            "request with the evaluator's execution multiset (cached: at most once ever; uncached: once per call), and "
            "dict(cells) with the evaluator's held map; non-trivial = some request was a cache hit on an element "
            "computed by an earlier request and some formula called another cells; distinct = distinct event-log digest")
    tiers = {"quick": {"budget_s": 40, "timeout_s": 60}, "thorough": {"budget_s": 900, "timeout_s": 120}}
    reach_probes = ["reach/cache_hit_requests", "reach/requests", "reach/inner_calls"]
    assumptions = ["the evaluator encodes the documented name-resolution order (cells > arguments > own/derived "
                   "references > _self/_space/_model > model references > child spaces > builtins)",
                   "exception classes are compared, never messages"]

    def execute(self, ctx):
        if ctx.doc is None:
            ctx.cfg = swarm(ctx.rng("cfg"))
        cfg = ctx.cfg
        mx.set_recalc(False)
        mach = machine.Machine(ctx.seed, cfg)
        if ctx.doc is None:
            mach.build(cfg["n_spaces"], cfg["n_cells"], cfg["n_refs"])
            steps = list(mach.steps)
            for i in range(cfg["n_requests"]):
                r = mach.sched.random()
                if r < 0.08:
                    steps.append({"op": "gc"})
                else:
                    op = mach.g_eval()
                    if op:
                        steps.append(op)
            nbuild = len(mach.steps)
        else:
            steps = ctx.doc["steps"]
            nbuild = 0
        ctx.steps = steps
        ev = None
        seen = set()
        self.giveup = False
        self._inner = False
        for i, op in enumerate(steps):
            if op["op"] not in ("eval", "gc"):
                if i >= nbuild:
                    mach.do(op, record=False)
                ev = None
                continue
            if op["op"] == "gc":
                mach.do(op, record=False)
                continue
            if getattr(self, "giveup", False):
                break
            if ev is None:
                ev = grammar.Evaluator(mach.ref)
            if not history.eval_target_exists(mach.ref, op):
                continue
            self.request(ctx, mach, ev, op, seen)
        ctx.events = mach.events
        ctx.nsteps = len(steps)

    def request(self, ctx, mach, ev, op, seen):
        ctx.count("requests", 1, "reach")
        n0 = len(probe.LOG)
        e0 = len(ev.log)
        live = mach.world.apply(op)
        args = list(op["args"])
        kwargs = None
        loc = [seg if isinstance(seg, str) else ["item", seg[1]] for seg in op["loc"]]
        r = ev.top_call(loc, op["name"], args, kwargs)
        if r[0] == "unknown" or getattr(ev, "poisoned", False):
            # the evaluator declined (e.g. arithmetic on an object-valued reference): its memo may be incomplete
            ctx.count("evaluator_declined", 1, "reach")
            self.giveup = True
            return
        want = ev_outcome(r)
        mach.events.append("req %s -> %s | %s" % (history.qkey(op), history.short(live), history.short(want)))
        if not agree(live, want):
            raise Violation("C01/value-differs/%s!=%s" % (history.short_kind(live), history.short_kind(want)),
                            {"request": op, "modelx": live, "evaluator": want})
        got_log = [tuple(x) for x in probe.LOG[n0:]]
        want_log = [tuple(x) for x in ev.log[e0:]]
        if sorted(map(repr, got_log)) != sorted(map(repr, want_log)):
            extra = [x for x in got_log if x not in want_log]
            missing = [x for x in want_log if x not in got_log]
            kind = "re-executed" if extra and not missing else ("not-executed" if missing and not extra else "differs")
            raise Violation("C01/executions-%s" % kind, {"request": op, "extra": extra[:5], "missing": missing[:5]})
        if want_log:
            if len({(x[0], x[1]) for x in want_log if x[2] == 0}) > 1:
                ctx.count("inner_calls", 1, "reach")
                self._inner = True
        elif live["st"] == "ok":
            ctx.count("cache_hit_requests", 1, "reach")
            if getattr(self, "_inner", False):
                ctx.nontrivial = True
        # equal spellings denote one element: held map of the requested cells equals the evaluator's
        if all(isinstance(s, str) for s in op["loc"]):
            path = ".".join(op["loc"])
            held = mach.world.held(path, op["name"])
            exp = {el[2]: v for el, v in ev.memo.items() if el[0] == path and el[1] == op["name"]}
            c = gen.visible_cells(mach.ref.space(path))[op["name"]][1]
            if not c.is_cached:
                exp = {}
            exp2 = {tuple(k): machine.norm(enorm(v)) for k, v in exp.items()}
            for k, v in exp2.items():
                if v == "<object>" and isinstance(held.get(k), str) and held[k].startswith("<"):
                    held[k] = "<object>"
            if {k: v for k, v in held.items()} != exp2:
                raise Violation("C01/held-map-differs", {"request": op, "modelx": {repr(k): v for k, v in held.items()},
                                                         "evaluator": {repr(k): v for k, v in exp.items()}})


def agree(a, b):
    if a["st"] != b["st"]:
        return False
    if a["st"] == "ok":
        if b["val"] == "<object>":
            return isinstance(a["val"], str) and a["val"].startswith("<")
        return a["val"] == machine.norm(b["val"])
    return a.get("exc") == b.get("exc")


PROP = C01()
