"""C09 - the cached flag never changes any result (flag-twin + fresh-twin)."""
from .base import PropBase, Violation
from .. import history, refmodel as rm, gen, probe
from ..world import World
from . import c02
import modelx as mx

WEIGHTS = {"eval": 7, "set_ref": 3.5, "del_ref": 1.2, "set_formula": 2, "new_cells": 1.5, "del_cells": 0.7,
           "set_cached": 2.5, "bases": 1.2, "new_space": 0.6, "rename_cells": 0.4, "sformula": 0.4, "clear": 0.6, "gc": 0.2}


def swarm(rng):
    cfg = c02.swarm(rng)
    cfg.update({"p_uncached": rng.choice([0.3, 0.5, 0.8, 1.0]), "n_steps": rng.choice([12, 20, 30]),
                "p_check": rng.choice([0.1, 0.2]), "recalc": False})
    pr = rng.choice([None, ["attr_child_model", "attr_child", "attr_space_model", "attr_space"],
                     ["attr_model", "attr_other", "attr_parent"], ["name", "model_name"]])
    cfg.pop("prefer_read", None)
    if pr:
        cfg["prefer_read"] = pr
    if rng.random() < 0.2:
        cfg["gadget_derived_uncached"] = True
        cfg["n_spaces"] = max(cfg["n_spaces"], 3)
    elif rng.random() < 0.12:
        cfg["gadget_attr_through_uncached"] = True
        cfg["n_spaces"] = max(cfg["n_spaces"], 3)
    return cfg


class FlagTwin(history.Oracle):
    """World B: the same history with every cells cached."""

    def start(self):
        self.b = World("F")
        self.nunc = 0

    def map(self, op):
        k = op["op"]
        if k == "new_cells":
            return dict(op, is_cached=True)
        if k == "set_cached":
            if getattr(self, "flag_before", None) == op["v"]:
                # the flag already had that value: modelx does nothing at all (the cells is not even defined by it)
                return None
            try:
                src = self.b.space(op["space"]).cells[op["name"]].formula.source
            except Exception:
                return None
            return {"op": "set_formula", "space": op["space"], "name": op["name"], "src": src}
        return op

    def before(self, op):
        if op["op"] == "set_cached":
            try:
                self.flag_before = self.mach.world.space(op["space"]).cells[op["name"]].is_cached
            except Exception:
                self.flag_before = None
        if op["op"] == "eval":
            self.log0 = len(probe.LOG)

    def after(self, op, out):
        if out is None or out.get("st") == "skip" or op["op"] == "gc":
            return
        bop = self.map(op)
        if bop is None:
            return
        n0 = len(probe.LOG)
        bout = self.b.apply(bop)
        del probe.LOG[n0:]
        k = op["op"]
        if k == "eval":
            self.ctx.count("flag_twin_queries", 1, "reach")
            if not history.same(out, bout):
                raise Violation("C09/flag-changes-result/%s!=%s" % (history.short_kind(out), history.short_kind(bout)),
                                {"query": op, "with_flags": out, "all_cached": bout, "uncached": self.uncached()})
            self.check_uncached(op, out)
        elif k in gen.EDIT_OPS or k in gen.EDIT_OPS_CLEAR:
            if (out["st"] == "ok") != (bout["st"] == "ok"):
                raise Violation("C09/acceptance-differs/" + k, {"op": strip(op), "with_flags": out, "all_cached": bout})

    def uncached(self):
        out = []
        for s in self.mach.ref.all_spaces():
            for n, (d, c) in gen.visible_cells(s).items():
                if not c.is_cached:
                    out.append(s.path() + "." + n)
        return out

    def check_uncached(self, op, out):
        """Uncached cells hold no values and are re-executed on every call."""
        ref = self.mach.ref
        if any(not isinstance(x, str) for x in op["loc"]):
            return
        s = ref.space(".".join(op["loc"]))
        if s is None:
            return
        c = gen.visible_cells(s).get(op["name"])
        if c is None or c[1].is_cached or c[1].formula is None:
            return
        self.ctx.nontrivial = True
        live = self.mach.world.space(op["loc"]).cells[op["name"]]
        if len(live) != 0:
            raise Violation("C09/uncached-holds-values", {"cells": op, "len": len(live)})
        if out["st"] == "ok":
            key = gen.bound_key(c[1].formula["params"], op["args"])
            site = (s.path(), c[1].pname, 0, tuple(key))
            n = sum(1 for e in probe.LOG[self.log0:] if e == site)
            self.ctx.count("uncached_top_calls", 1, "reach")
            if n < 1:
                raise Violation("C09/uncached-not-executed", {"cells": op, "executions": n})


def strip(op):
    return {k: v for k, v in op.items() if k != "formula"}


class C09(PropBase):
    id = "C09"
    level = "exploration"
    rule = ("one case = one seeded history (reference edits by name and by attribute path, formula and base changes, "
            "flag flips as steps, evaluations) executed in two real worlds at once: with the generated cached/uncached "
            "assignment and with every cells cached; every evaluation must agree across the worlds, uncached cells must "
            "hold nothing and execute on every top-level call, and the flagged world is also checked by the fresh-twin; every run "
            "ends with an uncached cells called with list arguments (all spellings, through cached callers, reference change); "
            "non-trivial = an uncached cells was evaluated at top level; distinct = distinct event-log digest")
    tiers = {"quick": {"budget_s": 45, "timeout_s": 60}, "thorough": {"budget_s": 900, "timeout_s": 120}}
    reach_probes = ["reach/flag_twin_queries", "reach/uncached_top_calls", "reach/twin_checks", "reach/unhashable_epilogues"]
    assumptions = c02.PROP.assumptions + ["histories contain no value assignments (uncached cells refuse them by design)"]

    def execute(self, ctx):
        if ctx.doc is None:
            ctx.cfg = swarm(ctx.rng("cfg"))
        cfg = ctx.cfg
        run = history.Run(ctx, cfg, [FlagTwin(), history.TwinOracle("C09")])
        if ctx.doc is None:
            if cfg.get("gadget_derived_uncached"):
                # an uncached cells that is only *derived* where it is called: its flag changes by re-inheritance
                # (flag change or deletion in the base), not by an edit of the cells itself
                rr = ctx.rng("gadget")
                for op in ({"op": "new_space", "parent": "", "name": "A", "bases": []},
                           {"op": "set_ref", "space": "A", "name": "k", "value": {"t": "int", "v": 1007}},
                           {"op": "new_cells", "space": "A", "name": "f", "is_cached": False,
                            "formula": {"style": "lambda", "params": [["x", None]], "ret": ["bin", "*", ["n", "k"], ["p", "x"]]}},
                           {"op": "new_space", "parent": "", "name": "B", "bases": ["A"]},
                           {"op": "new_space", "parent": "B", "name": "U", "bases": []},
                           {"op": "new_cells", "space": "B.U", "name": "g", "is_cached": True,
                            "formula": {"style": "lambda", "params": [["x", None]],
                                        "ret": ["bin", "+", ["call", ["_space", "parent"], "f", [["p", "x"]], "pos", ["x"]], ["c", 1]]}},
                           {"op": "new_space", "parent": "", "name": "C", "bases": []},
                           {"op": "new_cells", "space": "C", "name": "h", "is_cached": True,
                            "formula": {"style": "lambda", "params": [["x", None]],
                                        "ret": ["bin", "+", ["call", ["_model", "B"], "f", [["p", "x"]], "pos", ["x"]], ["c", 2]]}},
                           {"op": "eval", "loc": ["B", "U"], "name": "g", "args": [2], "spell": "pos"},
                           {"op": "eval", "loc": ["C"], "name": "h", "args": [rr.choice([1, 2, 3])], "spell": "pos"}):
                    run.step(op)
            if cfg.get("gadget_attr_through_uncached"):
                # a reference of another space read by attribute path twice on one call chain: by the outer formula, and by an
                # uncached cells that a cached cells in between calls - the one in between depends on it through the uncached one
                rr = ctx.rng("gadget")
                rd = ["a", ["_model", "D"], "k"]
                def cells(name, cached, ret):
                    return {"op": "new_cells", "space": "A", "name": name, "is_cached": cached,
                            "formula": {"style": "lambda", "params": [["x", None]], "ret": ret}}
                flags = rr.choice([(False, True, True), (False, True, False), (False, True, True), (True, True, True), (False, False, True)])
                call = lambda n: ["call", [], n, [["p", "x"]], "pos", ["x"]]
                for op in ({"op": "new_space", "parent": "", "name": "D", "bases": []},
                           {"op": "set_ref", "space": "D", "name": "k", "value": {"t": "int", "v": 1007}},
                           {"op": "new_space", "parent": "", "name": "A", "bases": []},
                           cells("f", flags[0], ["bin", "+", rd, ["p", "x"]]),
                           cells("g", flags[1], ["bin", "+", call("f"), ["c", 1]]),
                           cells("h", flags[2], ["bin", "+", rd, call("g")] if rr.random() < 0.7 else ["bin", "+", call("g"), rd]),
                           {"op": "eval", "loc": ["A"], "name": "h", "args": [2], "spell": "pos"}):
                    run.step(op)
            run.generate(WEIGHTS, cfg["n_steps"], cfg["p_check"])
            if cfg.get("gadget_attr_through_uncached"):
                qh = {"op": "eval", "loc": ["A"], "name": "h", "args": [2], "spell": "pos"}
                qg = {"op": "eval", "loc": ["A"], "name": "g", "args": [2], "spell": "pos"}
                for op in (qh, {"op": "set_ref", "space": "D", "name": "k", "value": {"t": "int", "v": 900100}},
                           qg, qh, {"op": "checkpoint", "extra": [qg, qh], "final": True}):
                    run.step(op)
            if cfg.get("gadget_derived_uncached"):
                # whatever the random history left of the gadget: flip the base's flag (or delete the base definition), let a few
                # steps pass, change the reference the cells reads by name, and ask again
                rr = ctx.rng("gadget-tail")
                first = rr.choice([{"op": "set_cached", "space": "A", "name": "f", "v": True},
                                   {"op": "set_cached", "space": "A", "name": "f", "v": True},
                                   {"op": "del_cells", "space": "A", "name": "f", "how": "delattr"}])
                ra = run.mach.ref.space("A")
                ca = ra.cells.get("f") if ra is not None else None
                if first["op"] == "del_cells" and (ca is None or not run.mach.deletable(ca)):
                    # an object-valued reference points at A.f: deleting it is the dangling-reference finding of C02
                    first = {"op": "set_cached", "space": "A", "name": "f", "v": True}
                run.step(first)
                for _ in range(rr.choice([0, 0, 1, 3])):
                    op = run.mach.next_op(WEIGHTS)      # (generated against the state the previous one left)
                    if op:
                        run.step(op)
                tail = [{"op": "set_ref", "space": "A", "name": "k", "value": {"t": "int", "v": 900001 + rr.randrange(50)}},
                         {"op": "eval", "loc": ["B", "U"], "name": "g", "args": [2], "spell": "pos"},
                         {"op": "eval", "loc": ["C"], "name": "h", "args": [rr.choice([1, 2, 3])], "spell": "pos"},
                         {"op": "checkpoint", "extra": [], "final": True}]
                for op in tail:
                    run.step(op)
        else:
            run.replay(ctx.doc["steps"])
        self.unhashable(ctx, run)
        run.finish()

    def unhashable(self, ctx, run):
        """Uncached cells accept unhashable arguments (deterministic epilogue on the model the history left behind):
        right values under every spelling, executed on every call, nothing held, and a cached caller that reached a
        reference through such a call is refreshed when the reference changes."""
        m = run.mach.world.m
        if "ZZ9" in m.spaces or "zk" in m.refs:
            return
        sp = m.new_space("ZZ9")
        m.zk = 7
        c = sp.new_cells("zz", formula="lambda x, y=0: (P(_space, 'zz', 0), len(x) + y + _model.zk)[1]")
        c.is_cached = False
        w = sp.new_cells("ww", formula="lambda: zz([1, 2]) + 1")
        w2 = sp.new_cells("wv", formula="lambda: zz([1, 2], y=zk) + 1")
        n0 = len(probe.LOG)
        got = []
        try:
            got = [c([1, 2, 3]), c([1, 2, 3], 2), c(x=[5], y=1), c([1, 2, 3]), w(), w2(), w()]
        except Exception as e:
            raise Violation("C09/uncached-rejects-unhashable-argument/%s" % type(e).__name__, {"error": repr(e)[:200], "got": got})
        execs = sum(1 for e in probe.LOG[n0:] if e[1] == "zz")
        run.mach.events.append("unhashable %s execs=%d" % (got, execs))
        ctx.count("unhashable_epilogues", 1, "reach")
        if got != [10, 12, 9, 10, 10, 17, 10]:
            raise Violation("C09/unhashable-argument-wrong-value", {"got": got})
        if execs != 6:
            raise Violation("C09/unhashable-argument-executions", {"executions": execs, "want": 6})
        if len(c) != 0:
            raise Violation("C09/uncached-holds-values", {"cells": "ZZ9.zz", "len": len(c)})
        m.zk = 8
        got2 = [c([1, 2, 3]), w(), w2()]
        if got2 != [11, 11, 19]:
            raise Violation("C09/stale/via=unhashable-argument-call/edit=set_ref", {"got": got2, "want": [11, 11, 19]})
        # a failure inside an uncached cells reached with an unhashable argument is a failure like any other
        from modelx.core.errors import FormulaError
        zf = sp.new_cells("zf", formula="lambda x: len(x) // (len(x) - len(x))")
        zf.is_cached = False
        wf = sp.new_cells("wf", formula="lambda: zf([1, 2]) + 1")
        for call, label in ((lambda: zf([1]), "direct"), (lambda: wf(), "through-a-cached-caller")):
            try:
                call()
                out = "returned"
            except FormulaError:
                err = mx.get_error()
                out = type(err).__name__
            except Exception as e:
                out = "raw " + type(e).__name__
            if out != "ZeroDivisionError":
                raise Violation("C09/failure-with-unhashable-argument-misreported/%s/%s" % (label, out), {})
            try:
                repr(mx.get_traceback())
            except Exception as e:
                raise Violation("C09/traceback-with-unhashable-argument-unprintable/%s" % type(e).__name__, {})
        # copies of an uncached cells are uncached: the same answers, nothing held
        try:
            cp = sp.copy(m, "ZZ9c")
            gotc = [cp.zz([1, 2, 3]), cp.ww(), len(cp.zz)]
        except Exception as e:
            raise Violation("C09/copy-of-uncached-cells-differs/%s" % type(e).__name__, {"error": repr(e)[:200]})
        if gotc != [11, 11, 0]:
            raise Violation("C09/copy-of-uncached-cells-differs/values", {"got": gotc, "want": [11, 11, 0]})


PROP = C09()
