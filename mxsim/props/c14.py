"""C14 - saving never loses the last good save; failed saves and loads leave no residue (fs fault injection)."""
from .base import PropBase, Violation
from .. import persist


class C14(PropBase):
    id = "C14"
    level = "fault_enumeration"
    rule = ("one case = one corpus model and a seeded sequence of 2-5 saves to the same path (directory and zip, mixed in some "
            "runs, backups on) with edits in between, loads and simulated restarts; faults strike at a seeded mutating "
            "file-system call of a save (mkdir/rename/replace/unlink/rmdir/open-for-write/write/close: fail-before with "
            "ENOSPC/EIO/EACCES, torn write, fail-on-close, EXDEV on rename, transient PermissionError x1-3 with virtual "
            "sleep), consecutive failed saves included; a quarter of the runs instead ENUMERATE every mutating call of one "
            "save x two fault kinds from an identical on-disk state; loads are failed by corrupting a stored file; after "
            "every attempt: the latest completely written generation loads from the path or its first backup unchanged, "
            "loadable generations are in order (after success exactly the previous ones), a zip destination is never a "
            "partial archive, registry and serializing flags are restored, no temp files remain, and a fresh save+load "
            "round-trips; non-trivial = a fault fired inside a save or load; distinct = distinct event-log digest")
    tiers = {"quick": {"budget_s": 35, "timeout_s": 240}, "thorough": {"budget_s": 900, "timeout_s": 1500}}
    reach_probes = ["reach/failed_saves", "reach/enumerated_points", "reach/attempts_checked", "reach/usable_checks"]
    assumptions = ["only error-type interruptions (no kill -9 / power loss): Python finally blocks run",
                   "a partially written directory at the path is legal as long as the last good generation is at the path or _BAK1"]

    def execute(self, ctx):
        if ctx.doc is None:
            ctx.cfg = persist.swarm(ctx.rng("cfg"), faults=True)
        persist.run_c14(ctx)


PROP = C14()
