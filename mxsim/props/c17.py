"""C17 - the error traceback is exactly the chain that was executing (fault enumeration over probe points)."""
from .base import PropBase, Violation
from .. import faults
from . import c02


class C17(PropBase):
    id = "C17"
    level = "fault_enumeration"
    rule = ("same fault enumeration as C05 (every probe point of the fault-free evaluation x seeded exception kinds, forced "
            "None returns, pairs of faults where a formula may catch the first); checked after each failing call: "
            "get_traceback() lists exactly the evaluator's executing stack at the raise, outermost first, same elements and "
            "arguments, each frame at the source line the evaluator says it was on (not asserted for None-returned and "
            "depth errors), get_error() is the injected object, and after a later successful call both are empty; "
            "non-trivial = the fault escaped at depth >= 2; distinct = distinct event-log digest")
    tiers = {"quick": {"budget_s": 45, "timeout_s": 90}, "thorough": {"budget_s": 900, "timeout_s": 180}}
    reach_probes = ["reach/tracebacks_checked", "reach/failure_handled_by_formula"]
    assumptions = ["line numbers are those of formula.source (1 = the def/lambda line)"]

    def execute(self, ctx):
        if ctx.doc is None:
            ctx.cfg = faults.swarm(ctx.rng("cfg"), c02.swarm(ctx.rng("cfg0")))
        faults.Scenario(ctx, "C17", check_state=False, check_tb=True).run()


PROP = C17()
