"""C13 - deletion is complete: old handles raise, no value computed from the deleted object survives."""
from .base import PropBase, Violation
from .. import history, refmodel as rm, gen
from ..world import objpath
from . import c02
import modelx as mx
from modelx.core.errors import DeletedObjectError, FormulaError

WEIGHTS = {"eval": 5, "del_cells": 3, "del_space": 2, "del_ref": 2, "bases": 3, "new_cells": 1.5, "new_space": 1,
           "set_ref": 1.5, "set_formula": 1, "rename_cells": 0.5, "sformula": 1, "clear": 1, "set_value": 0.7, "gc": 0.5,
           "set_cached": 0.3}


def swarm(rng):
    cfg = c02.swarm(rng)
    cfg.update({"p_handle": rng.choice([0.25, 0.4]), "n_steps": rng.choice([12, 20, 30]),
                "p_sformula": rng.choice([0.3, 0.5]), "p_bases": rng.choice([0.4, 0.7]), "p_check": 0.15,
                "base_switch": rng.random() < 0.3, "quiet": rng.random() < 0.3, "p_cellsless": rng.choice([0.0, 0.0, 0.4])})
    if rng.random() < 0.1:
        cfg.update({"gadget_recalc_item": True, "recalc": True, "n_spaces": max(cfg["n_spaces"], 3)})
    elif rng.random() < 0.1:
        cfg.update({"gadget_attr_readers": True, "n_spaces": max(cfg["n_spaces"], 3)})
    elif rng.random() < 0.1:
        cfg.update({"gadget_base_switch_del": True, "n_spaces": max(cfg["n_spaces"], 3), "n_steps": rng.choice([4, 12])})
    elif rng.random() < 0.15:
        cfg.update({"gadget_refs_only": True, "cellsless_paths": ["D", "C.U"], "n_spaces": max(cfg["n_spaces"], 3)})
    return cfg


class DeletionOracle(history.Oracle):
    def start(self):
        self.handles = []

    def owns(self, op):
        return op["op"] in ("take_handle", "drop_handle")

    def propose(self):
        mach = self.mach
        r = mach.sched.random()
        if r < self.run.cfg.get("p_handle", 0.3):
            return self.gen_take()
        if r < self.run.cfg.get("p_handle", 0.3) + 0.03 and self.handles:
            return {"op": "drop_handle", "i": mach.sched.randrange(len(self.handles))}
        return None

    def gen_take(self):
        mach = self.mach
        rng = mach.sched
        sps = list(mach.ref.all_spaces())
        if not sps:
            return None
        s = sps[rng.randrange(len(sps))]
        kinds = ["space", "cells", "cells", "ref"]
        if s.formula is not None:
            kinds += ["item", "item", "dyncells", "dyncells"]
            if s.spaces:
                kinds += ["itemchild"]
        k = kinds[rng.randrange(len(kinds))]
        op = {"op": "take_handle", "kind": k, "space": s.path()}
        dc = list(gen.visible_cells(s))
        if k in ("cells", "dyncells"):
            if not dc:
                return None
            op["name"] = dc[rng.randrange(len(dc))]
        if k == "ref":
            try:
                dr = list(rm.derived_refs(s))
            except rm.NoMRO:
                dr = []
            if not dr:
                return None
            op["name"] = dr[rng.randrange(len(dr))]
        if k in ("item", "dyncells", "itemchild"):
            op["args"] = [rng.randrange(0, 3) for p, d in s.formula["params"] if d is None or rng.random() < 0.4]
            if k == "itemchild":
                ch = list(s.spaces)
                op["child"] = ch[rng.randrange(len(ch))]
        return op

    def do(self, op):
        mach = self.mach
        if op["op"] == "drop_handle":
            if op["i"] < len(self.handles):
                self.handles.pop(op["i"])
            return
        ref = mach.ref.space(op["space"])
        if ref is None:
            return
        try:
            sp = mach.world.space(op["space"])
            k = op["kind"]
            h = {"kind": k, "space": op["space"], "rspace": ref, "op": op}
            if k == "space":
                h["obj"] = sp
            elif k == "cells":
                if op["name"] not in gen.visible_cells(ref):
                    return
                h["obj"] = sp.cells[op["name"]]
                h["name"] = op["name"]
                h["definer"] = gen.visible_cells(ref)[op["name"]][1]
            elif k == "ref":
                h["obj"] = mx.get_object(sp.fullname + "." + op["name"], as_proxy=True)
                h["name"] = op["name"]
                d = rm.derived_refs(ref).get(op["name"])
                if d is None:
                    return
                h["rref"] = d[1]
                h["defined_here"] = d[0] is ref
            else:
                if ref.formula is None:
                    return
                a = op["args"]
                item = sp[tuple(a) if len(a) != 1 else a[0]]
                h["key"] = tuple(item.argvalues)
                ret = ref.formula.get("ret")
                if ret and "base" in ret:
                    # the space this instance is built from (the parameter formula names another base)
                    h["rbase"] = mach.ref.space(ret["base"])
                if k == "item":
                    h["obj"] = item
                elif k == "dyncells":
                    if op["name"] not in item.cells:
                        return
                    h["obj"] = item.cells[op["name"]]
                    h["name"] = op["name"]
                else:
                    if op["child"] not in item.spaces:
                        return
                    h["obj"] = item.spaces[op["child"]]
                    h["child"] = op["child"]
        except (FormulaError, DeletedObjectError, KeyError, TypeError, AttributeError, ValueError):
            return
        self.handles.append(h)
        self.ctx.count(op["kind"], 1, "handles_taken")

    def after(self, op, out):
        if op["op"] in ("gc",) or out is None or out.get("st") == "skip":
            return
        if self.run.cfg.get("quiet"):
            # observing refreshes namespaces and can hide what an unobserved history leaves behind: in quiet runs the
            # handles are only looked at once, after the last step
            return
        self.check_all(op)

    def checkpoint(self, op):
        if self.run.cfg.get("quiet") and op.get("final"):
            self.check_all({"op": "final"})
        self.check_graph({"op": "checkpoint"})

    # ------------------------------------------------------------------
    def touch(self, h):
        """Return ("raised", cls) or ("ok", None) for name access on the handle."""
        o = h["obj"]
        try:
            if h["kind"] == "ref":
                o.value
                o.name
            else:
                o.name
                if h["kind"] in ("cells", "dyncells"):
                    o.parameters
                    len(o)
                else:
                    list(o.cells)
            return ("ok", None)
        except DeletedObjectError:
            return ("raised", "DeletedObjectError")
        except Exception as e:
            return ("raised", type(e).__name__)

    def gone(self, h):
        """Per the RefModel: is the referent certainly deleted?  (None = statement lets it raise or be current)"""
        rs = h["rspace"]
        k = h["kind"]
        if rs.deleted:
            return True
        if k == "space":
            return False
        if k == "cells":
            # a rename is not a deletion, and a derived cells may live on under another definition (and name) when its
            # definition is deleted: the handle must raise or be an object currently listed in the space (identity)
            return None
        if k == "ref":
            try:
                dr = rm.derived_refs(rs)
            except rm.NoMRO:
                return None
            if h["name"] not in dr:
                return True
            return None
        # dynamic objects: an ItemSpace may be discarded and re-created at any edit: raises or current
        if rs.formula is None:
            return True
        if h.get("rbase") is not None and h["rbase"].deleted:
            # built from a space that has been deleted since: derived from a deleted object - for as long as the parameter
            # formula still names that space (under another formula the instance may be built anew, and modelx hands the
            # interface object of a discarded instance to its successor: then the handle is the current object)
            ret = (rs.formula or {}).get("ret") or {}
            if ret.get("base") is not None and mach_space(self, ret["base"]) is h["rbase"]:
                return True
            if ret.get("base") is not None and mach_space(self, ret["base"]) is None:
                return True
            return None
        if k == "dyncells" and h["name"] not in gen.visible_cells(rs):
            return True
        if k == "itemchild" and h["child"] not in rs.spaces:
            return True
        return None

    def current(self, h):
        """The object now living at the handle's locator, looked up without creating anything."""
        sp = self.mach.world.space(h["space"])
        k = h["kind"]
        if k == "space":
            return sp
        if k == "cells":
            for c in sp.cells.values():
                if c is h["obj"]:
                    return c
            return None
        if k == "ref":
            return None
        items = sp.itemspaces
        key = h["key"]
        it = items.get(key if len(key) != 1 else key[0])
        if it is None:
            it = items.get(key)
        if it is None:
            return None
        if k == "item":
            return it
        if k == "dyncells":
            return it.cells.get(h["name"])
        return it.spaces.get(h["child"])

    def check_all(self, op):
        for h in self.handles:
            st, cls = self.touch(h)
            gone = self.gone(h)
            self.ctx.count("handle_checks", 1, "reach")
            if st == "raised" and cls != "DeletedObjectError":
                raise Violation("C13/handle-raises-other/%s/%s" % (h["kind"], cls), {"handle": h["op"], "after": strip(op)})
            if gone is True:
                self.ctx.count("dead_handle_checked", 1, "reach")
                self.ctx.nontrivial = True
                if st != "raised":
                    raise Violation("C13/dead-handle-answers/%s/after=%s" % (h["kind"], op["op"]),
                                    {"handle": h["op"], "after": strip(op)})
                if h["kind"] in ("cells", "dyncells"):
                    try:
                        h["obj"](*[0 for _ in range(3)])
                        called = "returned"
                    except DeletedObjectError:
                        called = "deleted"
                    except Exception as e:
                        called = type(e).__name__
                    if called != "deleted":
                        raise Violation("C13/dead-handle-callable/%s/%s" % (h["kind"], called), {"handle": h["op"], "after": strip(op)})
            elif st == "ok" and h["kind"] != "ref":
                try:
                    cur = self.current(h)
                except Exception:
                    cur = None
                if cur is not h["obj"]:
                    self.ctx.nontrivial = True
                    raise Violation("C13/orphaned-handle-answers/%s/after=%s" % (h["kind"], op["op"]),
                                    {"handle": h["op"], "after": strip(op), "current": repr(cur)[:80]})
            elif st == "ok" and h["kind"] == "ref":
                # a live reference proxy must show the current value of that name
                try:
                    cur = getattr(self.mach.world.space(h["space"]), h["name"])
                    val = h["obj"].value
                except Exception:
                    continue
                if cur is not val and cur != val:
                    raise Violation("C13/stale-reference-proxy/after=%s" % op["op"], {"handle": h["op"], "after": strip(op)})
        if op["op"] in ("del_space", "del_cells", "remove_bases", "add_bases", "del_ref", "rename_space", "rename_cells",
                        "set_sformula", "del_sformula", "clear_items", "del_item", "set_ref", "set_formula", "new_cells"):
            self.check_graph(op)

    def check_graph(self, op):
        """No node of a deleted object in the dependency graph; no deleted space in any bases list."""
        m = self.mach.world.m
        for node in list(m.tracegraph.nodes):
            impl = node[0]
            itf = getattr(impl, "interface", None)
            if itf is not None and getattr(itf, "_impl", None) is not impl:
                raise Violation("C13/graph-mentions-deleted/after=%s" % op["op"], {"node": repr(node)[:120], "after": strip(op)})
        def walk(sp):
            for ch in sp.spaces.values():
                for b in ch.bases:
                    if not b._is_valid():
                        raise Violation("C13/bases-mention-deleted/after=%s" % op["op"], {"space": objpath(ch)})
                walk(ch)
        walk(m)


def mach_space(oracle, path):
    return oracle.mach.ref.space(path)


def strip(op):
    return {k: v for k, v in op.items() if k != "formula"}


class DynamicCopyOracle(history.Oracle):
    """Existing ItemSpaces (never created by the oracle) list exactly the members of the space they were built from:
    a member deleted from the base - directly, through a base relation, or with its space - is gone from every dynamic copy."""

    def checkpoint(self, op):
        mach = self.mach
        found = []
        # dynamic side first: reading the static side refreshes its namespace, which is what discards stale copies

        def walk_dyn(dyn, rstatic, label):
            try:
                names = (sorted(dyn.cells), sorted(n for n in dyn.refs if not n.startswith("_")), sorted(dyn.spaces))
            except Exception:
                return
            found.append((label, rstatic, names))
            for cn in names[2]:
                rs = rstatic.spaces.get(cn)
                if rs is not None:
                    try:
                        walk_dyn(dyn.spaces[cn], rs, label + "." + cn)
                    except Exception:
                        pass

        for rs in mach.ref.all_spaces():
            if rs.formula is None or (rs.formula.get("ret") and "base" in rs.formula["ret"]):
                continue
            try:
                live = mach.world.space(rs.path())
                items = dict(live.itemspaces)
            except Exception:
                continue
            for key, it in items.items():
                walk_dyn(it, rs, "%s[%s]" % (rs.path(), key))
        for label, rs, (dcells, drefs, dspaces) in found:
            self.ctx.count("dynamic_copies_compared", 1, "reach")
            try:
                want_cells = sorted(gen.visible_cells(rs))
                want_refs = set(rm.derived_refs(rs)) | set(mach.ref.refs)
            except rm.NoMRO:
                continue
            if dcells != want_cells:
                raise Violation("C13/dynamic-copy-cells-differ/%s" % ("extra" if set(dcells) - set(want_cells) else "missing"),
                                {"instance": label, "has": dcells, "base_has": want_cells, "after": strip(op)})
            extra = set(drefs) - want_refs
            allowed = set()
            x = rs
            while isinstance(x, rm.RSpace):
                if x.formula is not None:
                    allowed |= {p_ for p_, d in x.formula["params"]}
                    ret = x.formula.get("ret")
                    if ret and "refs" in ret:
                        allowed |= set(ret["refs"])
                x = x.parent
            if extra - allowed:
                self.ctx.nontrivial = True
                raise Violation("C13/dynamic-copy-lists-deleted-reference", {"instance": label, "names": sorted(extra - allowed), "after": strip(op)})
            missing = {n for n in want_refs if not n.startswith("_")} - set(drefs)
            if missing:
                raise Violation("C13/dynamic-copy-misses-reference", {"instance": label, "names": sorted(missing), "after": strip(op)})


class C13(PropBase):
    id = "C13"
    level = "exploration"
    rule = ("one case = one seeded history in which a handle-keeper takes handles (static spaces, defined and derived "
            "cells, ItemSpaces, dynamic cells, child spaces of ItemSpaces, reference proxies) at random times and the "
            "editor deletes directly and indirectly; after every step every kept handle is touched: if the RefModel says "
            "the referent is gone it must raise DeletedObjectError on access and on call, otherwise it must raise or be "
            "the current object; the dependency graph and all bases lists must not mention a deleted object; fresh-twin at "
            "checkpoints; non-trivial = at least one dead handle was checked; distinct = distinct event-log digest")
    tiers = {"quick": {"budget_s": 45, "timeout_s": 60}, "thorough": {"budget_s": 900, "timeout_s": 120}}
    reach_probes = ["reach/dead_handle_checked", "reach/handle_checks", "reach/twin_checks"]
    assumptions = c02.PROP.assumptions + ["the graph check reads model.tracegraph nodes as (object, key) tuples"]

    def execute(self, ctx):
        if ctx.doc is None:
            ctx.cfg = swarm(ctx.rng("cfg"))
        cfg = ctx.cfg
        run = history.Run(ctx, cfg, [DynamicCopyOracle(), DeletionOracle(), history.TwinOracle("C13")])
        if ctx.doc is None:
            if cfg.get("gadget_refs_only"):
                # a references-only space inherited by a references-only child of a parametrised space: its dynamic copies
                # are reached only through the parent's ItemSpaces, and nothing ever reads its namespace
                for op in ({"op": "new_space", "parent": "", "name": "D", "bases": []},
                           {"op": "set_ref", "space": "D", "name": "k", "value": {"t": "int", "v": 1007}},
                           {"op": "set_ref", "space": "D", "name": "m", "value": {"t": "int", "v": 1014}},
                           {"op": "new_space", "parent": "", "name": "C", "bases": [],
                            "formula": {"params": [["i", None]], "ret": None, "probe": False}},
                           {"op": "new_space", "parent": "C", "name": "U", "bases": ["D"]},
                           {"op": "take_handle", "kind": "itemchild", "space": "C", "args": [1], "child": "U"},
                           {"op": "take_handle", "kind": "itemchild", "space": "C", "args": [2], "child": "U"}):
                    run.step(op)
            if cfg.get("gadget_recalc_item"):
                # recalculation on; an element that both the parameter formula of A and a cells inside A's ItemSpaces read:
                # assigning to it discards the ItemSpace *and* lists its cells for recomputation
                for op in ({"op": "new_space", "parent": "", "name": "B", "bases": []},
                           {"op": "new_cells", "space": "B", "name": "f", "is_cached": True,
                            "formula": {"style": "lambda", "params": [["x", None]], "ret": ["bin", "+", ["p", "x"], ["c", 5]]}},
                           {"op": "new_space", "parent": "", "name": "A", "bases": [],
                            "formula": {"params": [["i", None]], "ret": None, "probe": False,
                                        "pre": ["call", ["_model", "B"], "f", [["c", 0]], "pos", ["x"]]}},
                           {"op": "new_cells", "space": "A", "name": "g", "is_cached": True,
                            "formula": {"style": "lambda", "params": [["x", None]],
                                        "ret": ["bin", "+", ["call", ["_model", "B"], "f", [["c", 0]], "pos", ["x"]], ["n", "i"]]}},
                           {"op": "eval", "loc": ["A", ["item", [1], "idx"]], "name": "g", "args": [2], "spell": "pos"},
                           {"op": "take_handle", "kind": "dyncells", "space": "A", "args": [1], "name": "g"}):
                    run.step(op)
            if cfg.get("gadget_attr_readers"):
                # one reference read through an attribute path by several holders of values
                for op in ({"op": "new_space", "parent": "", "name": "B", "bases": []},
                           {"op": "set_ref", "space": "B", "name": "k", "value": {"t": "int", "v": 1007}},
                           {"op": "new_space", "parent": "", "name": "A", "bases": []},
                           {"op": "new_cells", "space": "A", "name": "f", "is_cached": True,
                            "formula": {"style": "lambda", "params": [["x", None]], "ret": ["bin", "+", ["a", ["_model", "B"], "k"], ["p", "x"]]}},
                           {"op": "new_cells", "space": "A", "name": "g", "is_cached": True,
                            "formula": {"style": "lambda", "params": [["x", None]], "ret": ["bin", "*", ["a", ["_model", "B"], "k"], ["p", "x"]]}},
                           {"op": "eval", "loc": ["A"], "name": "f", "args": [1], "spell": "pos"},
                           {"op": "eval", "loc": ["A"], "name": "g", "args": [2], "spell": "pos"}):
                    run.step(op)
            if cfg.get("gadget_base_switch_del"):
                # a parametrised space whose instances are built from ANOTHER space (the formula names a base): they are
                # registered with that base, and have to go all the same when the parametrised space itself is deleted
                for op in ({"op": "new_space", "parent": "", "name": "B", "bases": []},
                           {"op": "new_cells", "space": "B", "name": "f", "is_cached": True,
                            "formula": {"style": "lambda", "params": [["x", None]], "ret": ["bin", "+", ["p", "x"], ["c", 5]]}},
                           {"op": "new_space", "parent": "", "name": "A", "bases": [],
                            "formula": {"params": [["i", None]], "ret": {"base": "B"}, "probe": False}},
                           {"op": "eval", "loc": ["A", ["item", [1], "idx"]], "name": "f", "args": [2], "spell": "pos"},
                           {"op": "take_handle", "kind": "item", "space": "A", "args": [1]},
                           {"op": "take_handle", "kind": "dyncells", "space": "A", "args": [1], "name": "f"}):
                    run.step(op)
            run.generate(WEIGHTS, cfg["n_steps"], 0.0 if cfg.get("quiet") else cfg["p_check"])
            if cfg.get("gadget_base_switch_del"):
                ra = run.mach.ref.space("A")
                # (a formula of the random history that reaches A by the path _model.A is the known C02 finding: left alone)
                if ra is not None and run.mach.space_editable(ra) and run.mach.deletable(ra):
                    qi = {"op": "eval", "loc": ["A", ["item", [1], "idx"]], "name": "f", "args": [2], "spell": "pos"}
                    for op in (qi, {"op": "del_space", "space": "A", "how": "delattr"}, {"op": "checkpoint", "extra": [], "final": True}):
                        run.step(op)
            if cfg.get("gadget_attr_readers"):
                # whatever is left of it: both hold a value, one of them is cleared for a reason of its own, the reference is
                # deleted (or rebound), and the other is asked again
                rr = ctx.rng("gadget-tail")
                qf = {"op": "eval", "loc": ["A"], "name": "f", "args": [1], "spell": "pos"}
                qg = {"op": "eval", "loc": ["A"], "name": "g", "args": [2], "spell": "pos"}
                tail = [qf, qg, rr.choice([{"op": "clear", "space": "A", "name": "f"},
                                           {"op": "set_value", "space": "A", "name": "f", "args": [1], "value": 900090, "how": "setitem"},
                                           {"op": "clear_at", "space": "A", "name": "g", "args": [2]}])]
                for op in tail:
                    run.step(op)
                for _ in range(rr.choice([0, 0, 1, 3])):
                    op = run.mach.next_op(WEIGHTS)      # (generated against the state the previous one left)
                    if op:
                        run.step(op)
                for op in (rr.choice([{"op": "del_ref", "space": "B", "name": "k"}, {"op": "del_ref", "space": "B", "name": "k"},
                                      {"op": "set_ref", "space": "B", "name": "k", "value": {"t": "int", "v": 900001 + rr.randrange(50)}}]),
                           qg, qf, {"op": "checkpoint", "extra": [qf, qg], "final": True}):
                    run.step(op)
            if cfg.get("gadget_recalc_item"):
                for op in ({"op": "set_value", "space": "B", "name": "f", "args": [0], "value": 900077, "how": "setitem"},
                           {"op": "eval", "loc": ["A", ["item", [1], "idx"]], "name": "g", "args": [2], "spell": "pos"},
                           {"op": "checkpoint", "extra": [], "final": True}):
                    run.step(op)
        else:
            run.replay(ctx.doc["steps"])
        run.finish()


PROP = C13()
