"""Common scaffolding for property modules."""
import gc, random, warnings
from .. import kernel, probe


class Violation(Exception):
    def __init__(self, sig, detail=None):
        Exception.__init__(self, sig)
        self.sig = sig
        self.detail = detail


class PropBase:
    id = None
    level = "exploration"
    rule = ""
    tiers = {"quick": {"budget_s": 50}, "thorough": {"budget_s": 900}}
    assumptions = []
    reach_probes = []

    # subclasses implement execute(ctx) where ctx.doc is None (generate from ctx.seed) or a replay doc
    def run_one(self, seed, tier, index):
        return self._run(seed, tier, index, None)

    def replay(self, doc):
        return self._run(doc.get("seed", 0), doc.get("tier", "quick"), doc.get("index", -1), doc)

    def _run(self, seed, tier, index, doc):
        gc.disable()
        warnings.simplefilter("ignore")
        probe.reset()
        ctx = Ctx(self, seed, tier, index, doc)
        try:
            self.execute(ctx)
            ok, sig, detail = True, None, None
        except Violation as v:
            ok, sig, detail = False, v.sig, v.detail
        finally:
            import shutil
            for d in ctx.dirs:
                shutil.rmtree(d, ignore_errors=True)
        res = {
            "ok": ok, "sig": sig, "detail": detail,
            "stats": ctx.stats, "digest": kernel.digest_events(ctx.events),
            "nontrivial": bool(ctx.nontrivial), "steps": ctx.nsteps, "sim_s": ctx.sim_s,
        }
        if not ok:
            res["events_tail"] = [str(e)[:300] for e in ctx.events[-14:]]
        if not ok or index < 3:
            d = ctx.make_doc()
            if not ok:
                res["doc"] = d
            if index < 3 and index >= 0:
                res["sample"] = ctx.sample(d)
        return res


class Ctx:
    def __init__(self, prop, seed, tier, index, doc):
        self.prop = prop
        self.seed = seed
        self.tier = tier
        self.index = index
        self.doc = doc
        self.replaying = doc is not None
        self.events = []
        self.stats = {}
        self.nontrivial = False
        self.nsteps = 0
        self.sim_s = 0.0
        self.cfg = dict(doc["cfg"]) if doc else None
        self.steps = []
        self.dirs = []

    def tmpdir(self, tag="run"):
        d = kernel.run_dir("%s%d" % (tag, len(self.dirs)))
        self.dirs.append(d)
        return d

    def rng(self, label):
        return random.Random(kernel.h64(self.seed, label))

    def count(self, key, n=1, group=None):
        if group:
            d = self.stats.setdefault(group, {})
            d[key] = d.get(key, 0) + n
        else:
            self.stats[key] = self.stats.get(key, 0) + n

    def make_doc(self):
        return {"property": self.prop.id, "seed": self.seed, "tier": self.tier, "index": self.index,
                "cfg": self.cfg, "steps": self.steps}

    def sample(self, d):
        steps = d["steps"]
        return {"seed": self.seed, "cfg": self.cfg, "n_steps": len(steps),
                "steps_head": [_short(s) for s in steps[:40]]}


def _short(op):
    if not isinstance(op, dict):
        return op
    out = {}
    for k, v in op.items():
        if k == "formula" and isinstance(v, dict) and "style" in v:
            from .. import grammar
            try:
                out["src"] = grammar.render(op.get("name", "f"), v)
            except Exception:
                out["src"] = "?"
        else:
            out[k] = v
    return out
