"""C03 - derived members equal re-derivation from defined members along the C3 order."""
import itertools
from .base import PropBase, Violation
from .. import history, refmodel as rm, gen, grammar
from ..world import objpath, norm
from . import c02, c01

WEIGHTS = {"eval": 2, "new_cells": 3, "del_cells": 2.5, "set_formula": 2.5, "set_cached": 0.8, "set_ref": 3, "del_ref": 1.5,
           "bases": 5, "new_space": 1.5, "del_space": 0.6, "rename_cells": 1, "rename_space": 0.3, "gc": 0.1}


def swarm(rng):
    cfg = c02.swarm(rng)
    cfg.update({"n_spaces": rng.choice([3, 4, 5]), "n_cells": rng.choice([1, 2, 3]), "n_refs": rng.choice([0, 1, 2]),
                "n_steps": rng.choice([12, 20, 30]), "p_bases": rng.choice([0.5, 0.8]), "p_objref": 0.0,
                "p_sformula": 0.1, "max_depth": rng.choice([1, 1, 2]), "p_check": 0.2, "recalc": False,
                "rename_multibase": True, "p_modelref": 0.15})
    return cfg


def enumerated(index):
    """Deterministic start configurations: all ordered-base DAGs on three spaces x which spaces define f and k."""
    dags = []
    for bb in ([], ["A"]):
        for cb in ([], ["A"], ["B"], ["A", "B"], ["B", "A"]):
            dags.append((bb, cb))
    defs = list(itertools.product([0, 1], repeat=3))
    n = len(dags) * len(defs)
    if index >= n:
        return None
    bb, cb = dags[index // len(defs)]
    d = defs[index % len(defs)]
    steps = [{"op": "new_space", "parent": "", "name": "A", "bases": []},
             {"op": "new_space", "parent": "", "name": "B", "bases": bb},
             {"op": "new_space", "parent": "", "name": "C", "bases": cb}]
    for sp, on in zip("ABC", d):
        if on:
            v = {"A": 2, "B": 3, "C": 5}[sp]
            steps.append({"op": "new_cells", "space": sp, "name": "f", "is_cached": True,
                          "formula": {"style": "lambda", "params": [["x", None]], "ret": ["bin", "+", ["c", v], ["n", "k"]]}})
            steps.append({"op": "set_ref", "space": sp, "name": "k", "value": {"t": "int", "v": v * 100}})
    # scripted perturbation: delete and re-create each definition, remove and re-add each base edge
    for sp, on in zip("ABC", d):
        if on:
            steps.append({"op": "del_cells", "space": sp, "name": "f", "how": "delattr"})
            steps.append({"op": "del_ref", "space": sp, "name": "k"})
            steps.append({"op": "eval", "loc": ["C"], "name": "f", "args": [1], "spell": "pos"})
            steps.append({"op": "new_cells", "space": sp, "name": "f", "is_cached": True,
                          "formula": {"style": "lambda", "params": [["x", None]], "ret": ["bin", "+", ["c", 7], ["n", "k"]]}})
            steps.append({"op": "set_ref", "space": sp, "name": "k", "value": {"t": "int", "v": 77}})
    for sp, bs in (("B", bb), ("C", cb)):
        for b in bs:
            steps.append({"op": "remove_bases", "space": sp, "bases": [b]})
            steps.append({"op": "eval", "loc": ["C"], "name": "f", "args": [1], "spell": "pos"})
            steps.append({"op": "add_bases", "space": sp, "bases": [b]})
    steps.append({"op": "checkpoint", "extra": [{"op": "eval", "loc": [sp], "name": "f", "args": [1], "spell": "pos"} for sp in "ABC"]})
    return steps


class DerivationOracle(history.Oracle):
    def after(self, op, out):
        if op["op"] in ("eval", "gc") or out is None or out.get("st") == "skip":
            return
        self.check(op)

    def check(self, op):
        mach = self.mach
        self.ctx.count("states_checked", 1, "reach")
        for s in mach.ref.all_spaces():
            try:
                order = rm.mro(s)
            except rm.NoMRO:
                raise Violation("C03/accepted-no-linearisation/" + op["op"], {"space": s.path()})
            live = mach.world.space(s.path())
            try:
                got = [objpath(b) for b in live.bases]
            except Exception as e:
                raise Violation("C03/bases-cannot-be-read/%s/%s" % (type(e).__name__, op["op"]), {"space": s.path(), "error": str(e)[:200], "after": strip(op)})
            want = [x.path() for x in order[1:]]
            if got != want:
                raise Violation("C03/bases-not-c3/" + op["op"], {"space": s.path(), "modelx": got, "c3": want, "after": strip(op)})
            dc = rm.derived_cells(s)
            if set(live.cells) != set(dc):
                extra = sorted(set(live.cells) - set(dc))
                missing = sorted(set(dc) - set(live.cells))
                kind = "orphan-derived-cells" if extra else "missing-derived-cells"
                raise Violation("C03/%s/%s" % (kind, op["op"]), {"space": s.path(), "extra": extra, "missing": missing, "after": strip(op)})
            if len(order) > 1:
                self.ctx.nontrivial = True
            for n, (d, c) in dc.items():
                lc = live.cells[n]
                if lc._is_derived() != (d is not s):
                    raise Violation("C03/derived-flag-wrong/cells/" + op["op"], {"space": s.path(), "name": n, "definer": d.path(),
                                                                               "flag": lc._is_derived(), "after": strip(op)})
                if d is not s:
                    base = mach.world.space(d.path()).cells[n]
                    if lc.formula.source != base.formula.source or tuple(lc.parameters) != tuple(base.parameters):
                        raise Violation("C03/derived-formula-not-first-definer/" + op["op"],
                                        {"space": s.path(), "name": n, "definer": d.path(), "derived_src": lc.formula.source,
                                         "definer_src": base.formula.source, "after": strip(op)})
                    if lc.is_cached != base.is_cached:
                        raise Violation("C03/derived-cached-flag-differs/" + op["op"], {"space": s.path(), "name": n, "definer": d.path()})
            dr = rm.derived_refs(s)
            own = live._own_refs
            if set(own) != set(dr):
                extra = sorted(set(own) - set(dr))
                missing = sorted(set(dr) - set(own))
                kind = "orphan-derived-refs" if extra else "missing-derived-refs"
                raise Violation("C03/%s/%s" % (kind, op["op"]), {"space": s.path(), "extra": extra, "missing": missing, "after": strip(op)})
            for n, (d, r) in dr.items():
                if isinstance(r.value, (rm.RSpace, rm.RCells)) or isinstance(r.value, tuple):
                    continue      # object-valued references are C10's
                val = own[n]
                if norm(val) != norm(r.value):
                    raise Violation("C03/derived-value-not-first-definer/" + op["op"],
                                    {"space": s.path(), "name": n, "definer": d.path(), "got": norm(val), "want": norm(r.value), "after": strip(op)})

    def checkpoint(self, op):
        """A derived cells evaluates with names resolved in the sub space (independent evaluator, fresh memo)."""
        mach = self.mach
        ev = grammar.Evaluator(mach.ref)
        for q in list(self.run.queries)[-8:] + list(op.get("extra") or []):
            if not history.eval_target_exists(mach.ref, q):
                continue
            loc = [seg if isinstance(seg, str) else ["item", seg[1]] for seg in q["loc"]]
            r = ev.top_call(loc, q["name"], list(q["args"]))
            if r[0] == "unknown" or getattr(ev, "poisoned", False):
                return
            live = mach.world.apply(q)
            want = c01.ev_outcome(r)
            self.ctx.count("evaluations_vs_evaluator", 1, "reach")
            if not history.same(live, {"st": want["st"], "val": norm(want.get("val")), "exc": want.get("exc")}):
                raise Violation("C03/derived-evaluates-differently/%s!=%s" % (history.short_kind(live), history.short_kind(want)),
                                {"query": q, "modelx": live, "evaluator": want})


def strip(op):
    return {k: v for k, v in op.items() if k != "formula"}


class C03(PropBase):
    id = "C03"
    level = "exploration"
    rule = ("run indexes 0..79 enumerate every ordered-base DAG on three spaces x every choice of which spaces define a "
            "cells and a reference of the same names, each followed by a scripted delete/re-create of every definition "
            "and remove/re-add of every base edge; later indexes are seeded histories (define, redefine, delete, override, "
            "un-override, rename, add/remove bases, new/delete spaces) over 3-5 spaces with diamonds; after every step every "
            "space is compared with derivation from scratch: bases == CPython's MRO of the mirrored direct bases, member "
            "names, derived flags, formula source/parameters/cached flag and reference values of the first definer; "
            "derived cells are evaluated against the independent evaluator at checkpoints; "
            "non-trivial = some checked space had at least one base; distinct = distinct event-log digest")
    tiers = {"quick": {"budget_s": 45, "timeout_s": 60}, "thorough": {"budget_s": 900, "timeout_s": 120}}
    reach_probes = ["reach/states_checked", "reach/evaluations_vs_evaluator"]
    assumptions = ["member order inside a space is not asserted", "object-valued references are judged by C10",
                   "no inheritance between a space and its own ancestors/descendants (generator exclusion)"]

    def execute(self, ctx):
        steps = None
        if ctx.doc is None:
            ctx.cfg = swarm(ctx.rng("cfg"))
            steps = enumerated(ctx.index) if ctx.index >= 0 else None
            if steps is not None:
                ctx.cfg["enumerated"] = True
        cfg = ctx.cfg
        run = history.Run(ctx, cfg, [DerivationOracle()])
        if ctx.doc is not None:
            run.replay(ctx.doc["steps"])
        elif steps is not None:
            run.replay(steps)
            ctx.count("enumerated_configurations", 1, "reach")
        else:
            run.generate(WEIGHTS, cfg["n_steps"], cfg["p_check"])
        run.finish()


PROP = C03()
