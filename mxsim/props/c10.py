"""C10 - object-valued references rebind relatively or stay absolute as their mode says."""
from .base import PropBase, Violation
from .. import history, refmodel as rm, gen, grammar
from ..world import norm, objpath
from . import c02
import modelx as mx
from modelx.core.errors import DeletedObjectError, FormulaError

WEIGHTS = {"set_ref": 6, "del_ref": 1, "bases": 3, "new_space": 2, "new_cells": 1.5, "eval": 1, "sformula": 1, "del_cells": 0.3, "rename_cells": 1.2,
           "set_formula": 0.3, "gc": 0.1}


def swarm(rng):
    cfg = c02.swarm(rng)
    cfg.update({"p_objref": rng.choice([0.7, 0.9]), "p_mirror": rng.choice([0.0, 0.4]), "n_spaces": rng.choice([3, 4, 5]), "max_depth": rng.choice([2, 2, 3]),
                "n_cells": rng.choice([1, 2]), "n_refs": rng.choice([1, 2]), "n_steps": rng.choice([10, 16, 24]),
                "p_sformula": rng.choice([0.3, 0.6]), "p_bases": rng.choice([0.5, 0.8]), "p_modelref": 0.1, "recalc": False,
                "p_check": 0.0, "reload": rng.random() < 0.5, "reload_zip": rng.random() < 0.5,
                "base_switch": rng.random() < 0.35})
    if rng.random() < 0.15:
        cfg.update({"gadget_two_bases": True, "n_steps": rng.choice([4, 10])})
    return cfg


def live_obj(world, v):
    """The live object a RefModel value denotes."""
    if isinstance(v, rm.RSpace):
        return world.space(v.path())
    if isinstance(v, rm.RCells):
        return world.space(v.space.path()).cells[v.name]
    if isinstance(v, tuple) and v and v[0] == "cells-of":
        return world.space(v[1].path()).cells[v[2]]
    return None


class RebindOracle(history.Oracle):
    def after(self, op, out):
        if op["op"] in ("eval", "gc") or out is None or out.get("st") != "ok":
            return
        self.check(op)

    def check(self, op):
        mach = self.mach
        ev = None
        for s in mach.ref.all_spaces():
            try:
                dr = rm.derived_refs(s)
            except rm.NoMRO:
                continue
            live = mach.world.space(s.path())
            for n, (d, r) in dr.items():
                v = r.value
                if not (isinstance(v, (rm.RSpace, rm.RCells)) or (isinstance(v, tuple) and v and v[0] == "cells-of")):
                    continue
                tsp = v if isinstance(v, rm.RSpace) else (v.space if isinstance(v, rm.RCells) else v[1])
                if tsp is None or tsp.deleted or (isinstance(v, rm.RCells) and v.deleted):
                    continue
                mode = r.mode or "auto"
                v2, is_rel, known = rm.rebind(v, d, s, mode)
                self.ctx.count("static_bindings_seen", 1, "reach")
                try:
                    prx = mx.get_object(live.fullname + "." + n, as_proxy=True)
                    if prx.refmode != mode:
                        raise Violation("C10/refmode-not-preserved/" + op["op"], {"space": s.path(), "name": n, "mode": prx.refmode, "want": mode})
                    got = getattr(live, n)
                except DeletedObjectError:
                    continue
                if not known:
                    continue      # descendant target under static derivation: the statement is silent
                want = live_obj(mach.world, v2) if v2 is not None else None
                if want is None:
                    continue
                self.ctx.count("static_bindings_judged", 1, "reach")
                if d is not s:
                    self.ctx.nontrivial = True
                if got is not want:
                    kind = "relative-not-rebound" if is_rel else "absolute-or-outside-rebound"
                    raise Violation("C10/%s/%s/mode=%s" % (kind, "derived" if d is not s else "defined", mode),
                                    {"space": s.path(), "name": n, "definer": d.path(), "got": norm(got), "want": norm(want), "after": strip(op)})
            # ItemSpaces: any object inside the base's tree is bound to the corresponding object of the dynamic tree
            if s.formula is not None and dr:
                args = [1 for p, dflt in s.formula["params"] if dflt is None]
                try:
                    inst_live = live(*args)
                except (FormulaError, DeletedObjectError, Exception):
                    inst_live = None
                    self.ctx.count("itemspace_creation_failed", 1, "reach")
                if inst_live is None:
                    # creation must not fail merely because of an object reference the statement covers
                    bad = [n for n, (d, r) in dr.items() if isinstance(r.value, (rm.RSpace, rm.RCells))]
                    continue
                if ev is None:
                    ev = grammar.Evaluator(mach.ref)
                try:
                    inst = ev.get_item(ev.sinst(s), args)
                except (grammar.EvalRaise, grammar.EvalUnknown):
                    continue
                self.walk_dynamic(ev, inst, inst_live, op)

    def walk_dynamic(self, ev, inst, live, op):
        base = inst.base
        for n, (d, r) in rm.derived_refs(base).items():
            v = r.value
            if not isinstance(v, (rm.RSpace, rm.RCells)) or v.deleted or (isinstance(v, rm.RCells) and v.space.deleted):
                continue
            try:
                kind = ev._dynrefval(r, d, inst, n)
            except (grammar.EvalUnknown, grammar.EvalRaise):
                continue
            try:
                got = getattr(live, n)
            except Exception as e:
                raise Violation("C10/dynamic-reference-unreadable/%s" % type(e).__name__, {"instance": inst.path(), "name": n})
            want = self.live_of_kind(kind)
            if want is None:
                continue
            self.ctx.count("dynamic_bindings_judged", 1, "reach")
            self.ctx.nontrivial = True
            if got is not want:
                what = "inside-tree-not-rebound" if kind[0] in ("space", "dyncells") and getattr(kind[1] if kind[0] == "space" else kind[1][0], "is_dynamic", False) else "outside-or-absolute-rebound"
                raise Violation("C10/dynamic/%s/mode=%s" % (what, r.mode or "auto"),
                                {"instance": inst.path(), "name": n, "got": norm(got), "want": norm(want), "after": strip(op)})
        for cn in base.spaces:
            ch = ev.child(inst, cn)
            try:
                chl = live.spaces[cn]
            except Exception:
                continue
            self.walk_dynamic(ev, ch, chl, op)

    def live_of_kind(self, kind):
        w = self.mach.world
        try:
            if kind[0] == "space":
                return self.live_inst(kind[1])
            if kind[0] == "dyncells":
                return self.live_inst(kind[1][0]).cells[kind[1][1]]
            if kind[0] == "cellsobj":
                return w.space(kind[1][0].path()).cells[kind[1][1]]
        except Exception:
            return None
        return None

    def live_inst(self, inst):
        if not inst.is_dynamic:
            return self.mach.world.space(inst.base.path() if inst.key is None else inst.path())
        if inst.key is not None:
            parent = self.live_inst(inst.parent)
            return parent(*inst.key)
        return self.live_inst(inst.parent).spaces[inst.name]


def strip(op):
    return {k: v for k, v in op.items() if k != "formula"}


class C10(PropBase):
    id = "C10"
    level = "exploration"
    rule = ("one case = one seeded history that places object-valued references over the grid mode (auto/absolute/relative) x "
            "target (the defining space, one of its cells, a descendant, an outside object) x nesting depth, then perturbs "
            "(re-assign, re-mode, add/remove bases, new deriving spaces, parameter formulas); after every accepted edit, for "
            "every space and every reference it defines or derives: refmode preserved; for the placements the statement covers "
            "the value is, by identity, the deriving space / its corresponding cells (relative or auto, target = definer or its "
            "cells) or the original (absolute, or outside); for an ItemSpace of every parametrised space the whole dynamic tree "
            "is walked: targets inside the base's tree must be the corresponding dynamic object; "
            "non-trivial = a derived or dynamic binding was judged; distinct = event-log digest")
    tiers = {"quick": {"budget_s": 45, "timeout_s": 60}, "thorough": {"budget_s": 900, "timeout_s": 120}}
    reach_probes = ["reach/static_bindings_judged", "reach/dynamic_bindings_judged", "reach/reloads"]
    assumptions = ["descendant-space targets under static derivation are generated but not judged (child spaces are not inherited)",
                   "'relative' references to targets outside the definer's tree are not generated (accepted by modelx and failing "
                   "later: known finding)", "half of the runs end with a save (directory or zip) and load, after which the loaded model is judged by the same rule"]

    def execute(self, ctx):
        if ctx.doc is None:
            ctx.cfg = swarm(ctx.rng("cfg"))
        cfg = ctx.cfg
        run = history.Run(ctx, cfg, [RebindOracle()])
        if ctx.doc is None:
            if cfg.get("gadget_two_bases"):
                # a space with two bases that both define the cells a reference of the SECOND base points at: which object is
                # "the corresponding cells" of the sub space changes when the first base's cells is renamed or deleted
                def cells(space, name, v):
                    return {"op": "new_cells", "space": space, "name": name, "is_cached": True,
                            "formula": {"style": "lambda", "params": [["x", None]], "ret": ["bin", "*", ["p", "x"], ["c", v]]}}
                rr = ctx.rng("gadget")
                for op in ({"op": "new_space", "parent": "", "name": "A", "bases": []}, cells("A", "f", 10),
                           {"op": "new_space", "parent": "", "name": "B", "bases": []}, cells("B", "f", 20),
                           {"op": "set_ref", "space": "B", "name": "q", "value": {"t": "obj", "space": "B", "cells": "f"},
                            "mode": rr.choice(["auto", "relative", "absolute"])},
                           {"op": "new_space", "parent": "", "name": "C", "bases": ["A", "B"],
                            "formula": rr.choice([None, {"params": [["i", None]], "ret": None, "probe": False}])}):
                    run.step(op)
            run.generate(WEIGHTS, cfg["n_steps"], 0.0)
            if cfg.get("gadget_two_bases"):
                rr = ctx.rng("gadget-tail")
                for op in (rr.choice([{"op": "rename_cells", "space": "A", "name": "f", "new": "w"},
                                      {"op": "rename_cells", "space": "A", "name": "f", "new": "w"},
                                      {"op": "del_cells", "space": "A", "name": "f", "how": "delattr"}]),
                           {"op": "checkpoint", "extra": [], "final": True}):
                    run.step(op)
        else:
            run.replay(ctx.doc["steps"])
        if cfg.get("reload"):
            self.reload(ctx, run)
        run.finish()

    def reload(self, ctx, run):
        """Modes and bindings survive saving and loading: the model the history left behind is written (directory or zip),
        read back under another name, and judged by the same rule."""
        import os
        mach = run.mach
        d = ctx.tmpdir("c10")
        path = os.path.join(d, "saved")
        live = mach.world.m
        try:
            if cfg_zip(ctx):
                mx.zip_model(live, path + ".zip")
                back = mx.read_model(path + ".zip", name="Reloaded")
            else:
                mx.write_model(live, path)
                back = mx.read_model(path, name="Reloaded")
        except Exception as e:
            raise Violation("C10/save-or-load-raised/%s" % type(e).__name__, {"error": repr(e)[:300]})
        mach.events.append("reload zip=%s" % cfg_zip(ctx))
        ctx.count("reloads", 1, "reach")
        mach.world.m = back
        try:
            for o in run.oracles:
                if isinstance(o, RebindOracle):
                    try:
                        o.check({"op": "reload"})
                    except Violation as v:
                        raise Violation(v.sig + "/after-reload", v.detail)
        finally:
            mach.world.m = live


def cfg_zip(ctx):
    return bool(ctx.cfg.get("reload_zip"))


PROP = C10()
