"""C06 - a value edit discards exactly its dependents; inputs persist (evaluator's dependency relation as oracle)."""
from .base import PropBase, Violation
from .. import machine, gen, grammar, probe, refmodel as rm, history
from ..world import norm, left_executing
from . import c02, c01
import modelx as mx

WEIGHTS = {"eval": 6, "set_value": 4, "clear": 3, "set_ref": 1.0, "del_ref": 0.5, "gc": 0.2}


def swarm(rng):
    cfg = c02.swarm(rng)
    cfg.update({"n_spaces": rng.choice([2, 3]), "n_cells": rng.choice([3, 4, 5]), "n_refs": rng.choice([1, 2]),
                "n_steps": rng.choice([15, 25, 40]), "p_sformula": 0.0, "p_objref": 0.0, "p_uncached": rng.choice([0.0, 0.2, 0.5, 0.7]),
                "recalc": rng.random() < 0.5, "p_selfrec": 0.5, "p_scalar": 0.2, "items": False,
                "p_recalc_fault": rng.choice([0.0, 0.3, 0.6])})
    cfg["gadget_uncached_chain"] = rng.random() < 0.1
    return cfg


def el_loc(el):
    return el[0].split(".")


class C06(PropBase):
    id = "C06"
    level = "exploration"
    rule = ("one case = one generated DAG model and a seeded history of value assignments (all spellings), overwrites, "
            "clear_at/clear/clear_all/space and model clears, evaluations, reference changes and toggles of the "
            "recalculation option; after every step dict(cells) and is_input of EVERY cells must equal the held map the "
            "independent evaluator keeps by the contract (an edit of x removes x's transitive dependents and nothing "
            "else; inputs survive clear() and reference changes; with recalculation on, the discarded leaves are "
            "recomputed at once - also when that recalculation is made to fail at a seeded probe point: the assigned value stays "
            "an input, whatever was recomputed before the failure is right), and every evaluation's probe log must equal the "
            "evaluator's (kept values are not "
            "recomputed); non-trivial = an edit discarded at least one dependent while at least one other held value "
            "stayed; distinct = distinct event-log digest")
    tiers = {"quick": {"budget_s": 45, "timeout_s": 60}, "thorough": {"budget_s": 900, "timeout_s": 120}}
    reach_probes = ["reach/edits_with_dependents_and_survivors", "reach/recalc_edits", "reach/input_survived_clear",
                    "reach/recalculations_failed"]
    assumptions = ["after a reference change only 'inputs survive and values are right' is asserted (the statement does "
                   "not promise exactness there); the model is then brought to inputs-only on both sides",
                   "static spaces only (ItemSpaces are C07's)"]

    def execute(self, ctx):
        if ctx.doc is None:
            ctx.cfg = (getattr(self, "swarm_fn", None) or swarm)(ctx.rng("cfg"))
        cfg = ctx.cfg
        mx.set_recalc(bool(cfg["recalc"]))
        self.recalc = bool(cfg["recalc"])
        mach = machine.Machine(ctx.seed, cfg)
        self.mach, self.ctx = mach, ctx
        if ctx.doc is None:
            mach.build(cfg["n_spaces"], cfg["n_cells"], cfg["n_refs"])
            gadget = cfg.get("gadget_uncached_chain") and mach.ref.space("ZU") is None
            if gadget:
                # a cached element reached from a cached one through TWO uncached cells in a row: the edit of the inner one
                # has to discard the outer one
                def cells(name, cached, ret):
                    return {"op": "new_cells", "space": "ZU", "name": name, "is_cached": cached,
                            "formula": {"style": "lambda", "params": [["x", None]], "ret": ret}}
                call = lambda n: ["call", [], n, [["p", "x"]], "pos", ["x"]]
                for op in ({"op": "new_space", "parent": "", "name": "ZU", "bases": []},
                           cells("f", True, ["bin", "+", ["p", "x"], ["c", 7]]),
                           cells("g", False, ["bin", "+", call("f"), ["c", 1]]),
                           cells("h", False, ["bin", "*", call("g"), ["c", 2]]),
                           cells("u", True, ["bin", "+", call("h"), ["c", 3]])):
                    mach.do(op)
            steps = list(mach.steps)
            ctx.steps = steps
            nb = len(steps)
            ev = grammar.Evaluator(mach.ref)
            self.ev = ev
            for i in range(cfg["n_steps"]):
                if gadget and i in (2, cfg["n_steps"] // 2):
                    for op in ({"op": "eval", "loc": ["ZU"], "name": "u", "args": [1], "spell": "pos"},
                               mach.frng.choice([{"op": "set_value", "space": "ZU", "name": "f", "args": [1], "value": mach.fresh.next(), "how": "setitem"},
                                                 {"op": "clear_at", "space": "ZU", "name": "f", "args": [1]}]),
                               {"op": "eval", "loc": ["ZU"], "name": "u", "args": [1], "spell": "pos"}):
                        steps.append(op)
                        self.step(op)
                op = mach.next_op(getattr(self, "weights", None) or WEIGHTS) if mach.sched.random() > 0.05 else {"op": "set_recalc", "v": mach.sched.random() < 0.5}
                if op["op"] in ("clear_items",):
                    continue
                if op["op"] == "set_value" and self.recalc and mach.frng.random() < cfg.get("p_recalc_fault", 0.0):
                    self.attach_recalc_fault(op)
                steps.append(op)
                self.step(op)
            ctx.steps = steps
        else:
            ev = None
            self.ev = None
            for op in ctx.doc["steps"]:
                if op["op"] in ("new_space", "new_cells", "set_ref") and self.ev is None:
                    mach.do(op, record=False)
                    continue
                if self.ev is None:
                    self.ev = grammar.Evaluator(mach.ref)
                self.step(op)
            ctx.steps = ctx.doc["steps"]
        ctx.events = mach.events
        ctx.nsteps = len(ctx.steps)
        mx.set_recalc(False)

    # ------------------------------------------------------------------
    def step(self, op):
        mach, ev, ctx = self.mach, self.ev, self.ctx
        k = op["op"]
        if k == "gc":
            mach.do(op, record=False)
            return
        if k == "set_recalc":
            mx.set_recalc(bool(op["v"]))
            self.recalc = bool(op["v"])
            mach.events.append("recalc %s" % op["v"])
            return
        if k == "eval":
            if not history.eval_target_exists(mach.ref, op):
                return
            n0, e0 = len(probe.LOG), len(ev.log)
            live = mach.world.apply(op)
            r = ev.top_call(op["loc"], op["name"], list(op["args"]))
            if r[0] == "unknown" or getattr(ev, "poisoned", False):
                raise_giveup(self)
            want = c01.ev_outcome(r)
            mach.events.append("eval %s -> %s" % (history.qkey(op), history.short(live)))
            if not c01.agree(live, want):
                raise Violation("C06/value-differs/%s!=%s" % (history.short_kind(live), history.short_kind(want)),
                                {"request": op, "modelx": live, "evaluator": want})
            got = sorted(map(repr, probe.LOG[n0:]))
            exp = sorted(map(repr, ev.log[e0:]))
            if got != exp:
                extra = [x for x in got if x not in exp]
                missing = [x for x in exp if x not in got]
                raise Violation("C06/kept-value-recomputed" if extra and not missing else "C06/executions-differ",
                                {"request": op, "extra": extra[:5], "missing": missing[:5]})
            self.compare_held(op)
            return
        if k in ("set_ref", "del_ref"):
            # reference change: inputs survive, values stay right; exactness is not promised -> resynchronise
            ins0 = set(ev.inputs)
            out = mach.do(op, record=False)
            if out["st"] != "ok":
                return
            self.ev = grammar.Evaluator(mach.ref)
            for s in mach.ref.all_spaces():
                live = mach.world.space(s.path())
                for n in gen.visible_cells(s):
                    c = live.cells[n]
                    np_ = len(c.parameters)
                    for key in list(c):
                        kk = tuple(key) if np_ != 1 else (key,)
                        if not c.is_input(*kk):
                            continue
                live.clear_cells(clear_input=False, recursive=False)
            ctx.count("input_survived_ref_change", len(self.ev.inputs), "reach")
            if ins0 - set(self.ev.inputs):
                pass
            self.compare_held(op, inputs_only=ins0)
            return
        if k == "set_value" and op.get("fault"):
            self.faulted_assignment(op)
            return
        if k in ("set_value", "clear_at", "clear", "clear_all", "space_clear_all", "space_clear_cells", "model_clear_all"):
            before = dict(ev.memo)
            out = mach.do(op, record=False)
            mach.events.append("%s %s" % (k, out["st"]))
            if out["st"] == "skip":
                return
            if out["st"] != "ok":
                self.compare_held(op)      # a refused value edit changes nothing
                return
            self.mirror(op, before)
            self.compare_held(op)
            return

    def _assignment_target(self, op):
        mach = self.mach
        s = mach.ref.space(op["space"]) if op.get("space") else None
        if s is None or op["name"] not in gen.visible_cells(s):
            return None
        c = gen.visible_cells(s)[op["name"]][1]
        key = tuple(gen.bound_key(c.formula["params"] if c.formula else [], op["args"]))
        return (s.path(), op["name"], key)

    def attach_recalc_fault(self, op):
        """Choose a probe site of the recalculation this assignment will trigger and make it the failure point."""
        mach, ev = self.mach, self.ev
        el = self._assignment_target(op)
        if el is None or el not in ev.memo:
            return
        ev2 = grammar.Evaluator(mach.ref)
        ev2.memo = dict(ev.memo); ev2.inputs = set(ev.inputs)
        ev2.edges = {k: set(v) for k, v in ev.edges.items()}
        deps = ev2.dependents(el)
        leaves = [d for d in deps if not ev2.dependents(d)]
        if not leaves:
            return
        ev2.clear_with_dependents(el)
        ev2.memo[el] = op["value"]; ev2.inputs.add(el); ev2.edges.setdefault(el, set())
        for d in sorted(leaves, key=repr):
            if ev2.top_call(el_loc(d), d[1], list(d[2]))[0] == "unknown":
                return
        if not ev2.log:
            return
        site = ev2.log[mach.frng.randrange(len(ev2.log))]
        op["fault"] = {"faults": [{"site": [site[0], site[1], site[2], list(site[3])], "occ": 0,
                                   "exc": mach.frng.choice(["ValueError", "KeyError", "ZeroDivisionError"])}]}

    def faulted_assignment(self, op):
        """An assignment made with recalculation on whose recalculation fails: the assigned value is an input all the same,
        the dependents are discarded, whatever was recomputed before the failure is right, nothing else changed."""
        mach, ev, ctx = self.mach, self.ev, self.ctx
        el = self._assignment_target(op)
        plan = probe.FaultPlan(op["fault"].get("faults", ()), ())
        probe.arm(plan)
        try:
            out = mach.do(op, record=False)
        finally:
            probe.arm(None)
        mach.events.append("faulted set_value %s fired=%d" % (out["st"], len(plan.fired)))
        if out["st"] == "skip":
            return
        if not plan.fired:
            # the failure point was not reached: an ordinary assignment
            if out["st"] == "ok":
                self.mirror(dict(op, fault=None), dict(ev.memo))
            self.compare_held(op)
            return
        if out["st"] == "ok" and not out.get("recalculation_failed"):
            # the failure was caught by a formula: the recalculation did not fail, and which execution met the failure
            # depends on the order of recomputation, which the statement leaves open - this history is not judged further
            ctx.count("recalculation_fault_handled_by_a_formula", 1, "reach")
            raise_giveup(self)
        ctx.count("recalculations_failed", 1, "reach")
        if el is None:
            return
        ev.clear_with_dependents(el)
        ev.memo[el] = op["value"]
        ev.inputs.add(el)
        ev.edges.setdefault(el, set())
        # what modelx recomputed before the failure must be what the evaluator computes
        for s in mach.ref.all_spaces():
            for n in gen.visible_cells(s):
                for k in mach.world.held(s.path(), n):
                    x = (s.path(), n, tuple(k))
                    if x not in ev.memo:
                        r = ev.top_call(el_loc(x), n, list(k))
                        if r[0] == "unknown":
                            raise_giveup(self)
        sysm = mx.core.mxsys
        if left_executing():
            raise Violation("C06/left-marked-executing/after-failed-recalculation", {"after": strip(op)})
        self.compare_held(dict(op, op="set_value_failed_recalc"))

    def mirror(self, op, before):
        mach, ev, ctx = self.mach, self.ev, self.ctx
        k = op["op"]
        s = mach.ref.space(op["space"]) if op.get("space") else None

        def elements(space, name=None):
            return [el for el in list(ev.memo) if el[0] == space.path() and (name is None or el[1] == name)]
        if k == "set_value":
            c = gen.visible_cells(s)[op["name"]][1]
            key = tuple(gen.bound_key(c.formula["params"] if c.formula else [], op["args"]))
            el = (s.path(), op["name"], key)
            deps = ev.dependents(el) if el in ev.memo else set()
            leaves = [d for d in deps if not (ev.dependents(d))]
            survivors = [x for x in ev.memo if x not in deps and x != el]
            if deps and survivors:
                ctx.count("edits_with_dependents_and_survivors", 1, "reach")
                ctx.nontrivial = True
            ev.clear_with_dependents(el)
            ev.memo[el] = op["value"]
            ev.inputs.add(el)
            ev.edges.setdefault(el, set())
            if self.recalc and leaves:
                ctx.count("recalc_edits", 1, "reach")
                n0, e0 = len(probe.LOG), len(ev.log)
                for d in sorted(leaves, key=repr):
                    r = ev.top_call(el_loc(d), d[1], list(d[2]))
                    if r[0] == "unknown":
                        raise_giveup(self)
        elif k == "clear_at":
            c = gen.visible_cells(s)[op["name"]][1]
            key = tuple(gen.bound_key(c.formula["params"] if c.formula else [], op.get("args", [])))
            el = (s.path(), op["name"], key)
            if el in ev.memo:
                deps = ev.dependents(el)
                if deps and [x for x in ev.memo if x not in deps and x != el]:
                    ctx.count("edits_with_dependents_and_survivors", 1, "reach")
                    ctx.nontrivial = True
                ev.clear_with_dependents(el)
        elif k in ("clear", "clear_all"):
            for el in elements(s, op["name"]):
                if el in ev.memo and (k == "clear_all" or el not in ev.inputs):
                    ev.clear_with_dependents(el)
                elif el in ev.inputs:
                    ctx.count("input_survived_clear", 1, "reach")
        elif k in ("space_clear_all", "space_clear_cells", "model_clear_all"):
            if k == "model_clear_all":
                spaces = list(mach.ref.all_spaces())
                ci = True
            elif k == "space_clear_all":
                spaces = list(s.walk())
                ci = True
            else:
                spaces = list(s.walk()) if op.get("recursive", True) else [s]
                ci = bool(op.get("clear_input"))
            for sp_ in spaces:
                for el in elements(sp_):
                    if el in ev.memo and (ci or el not in ev.inputs):
                        ev.clear_with_dependents(el)

    def compare_held(self, op, inputs_only=None):
        mach, ev = self.mach, self.ev
        for s in mach.ref.all_spaces():
            live = mach.world.space(s.path())
            for n, (d, c) in gen.visible_cells(s).items():
                held = mach.world.held(s.path(), n)
                lc = live.cells[n]
                if inputs_only is not None:
                    want_in = {el[2] for el in inputs_only if el[0] == s.path() and el[1] == n}
                    got_in = {k for k in held if lc.is_input(*k)}
                    if want_in - got_in:
                        raise Violation("C06/input-lost/" + op["op"], {"cells": s.path() + "." + n, "lost": sorted(map(repr, want_in - got_in)), "after": strip(op)})
                    # re-load inputs into the fresh evaluator
                    for k in got_in:
                        el = (s.path(), n, k)
                        ev.memo[el] = held[k]
                        ev.inputs.add(el)
                        ev.edges.setdefault(el, set())
                    continue
                exp = {tuple(el[2]): norm(c01.enorm(v)) for el, v in ev.memo.items() if el[0] == s.path() and el[1] == n}
                if held != exp:
                    extra = {repr(k): v for k, v in held.items() if k not in exp}
                    missing = {repr(k): v for k, v in exp.items() if k not in held}
                    wrong = {repr(k): (held[k], exp[k]) for k in held if k in exp and held[k] != exp[k]}
                    what = "cleared-too-little" if extra else ("cleared-too-much" if missing else "wrong-value")
                    raise Violation("C06/%s/%s%s" % (what, op["op"], "/recalc" if self.recalc else ""),
                                    {"cells": s.path() + "." + n, "kept_but_should_go": extra, "gone_but_should_stay": missing,
                                     "wrong": wrong, "after": strip(op)})
                for k in held:
                    isin = lc.is_input(*k)
                    if isin != ((s.path(), n, k) in ev.inputs):
                        raise Violation("C06/is_input-wrong/" + op["op"], {"cells": s.path() + "." + n, "key": repr(k), "modelx": isin})


class GiveUp(Exception):
    pass


def raise_giveup(self):
    raise GiveUp()


def strip(op):
    return {k: v for k, v in op.items() if k != "formula"}


_orig_execute = C06.execute


def _execute(self, ctx):
    try:
        _orig_execute(self, ctx)
    except GiveUp:
        ctx.count("evaluator_declined", 1, "reach")
        ctx.events = self.mach.events
        mx.set_recalc(False)


C06.execute = _execute
PROP = C06()
