"""C18 - an IOSpec lives exactly as long as a reference to its value."""
import os
import modelx as mx
import pandas as pd
from .base import PropBase, Violation
from .. import machine, kernel
from ..world import library_self_check

SPACES = ["A", "B", "C"]
EXTRA = ["D", "E"]
NAMES = ["d1", "d2", "d3"]


def swarm(rng):
    return {"n_steps": rng.choice([10, 16, 24, 32]), "two_models": rng.random() < 0.4, "p_hostile": rng.choice([0.1, 0.25]),
            "p_save": rng.choice([0.05, 0.15]), "structure": rng.random() < 0.6, "modules": rng.random() < 0.4,
            "cells": rng.random() < 0.5, "abs_paths": rng.random() < 0.5}


class Session:
    def __init__(self, ctx):
        self.ctx = ctx
        self.cfg = ctx.cfg
        self.rng = ctx.rng("ops")
        self.dir = None
        self.models = []       # dicts: {"m": Model, "values": {vid: value}, "bind": {(space, name): vid}, "spaces": {name: [bases]}}
        self.nv = 0
        self.events = []

    def new_model(self, name):
        m = mx.new_model(name)
        rec = {"m": m, "values": {}, "bind": {}, "paths": {}, "plain": {}, "kind": {}, "text": {},
               "spaces": {"A": [], "B": ["A"], "C": []}, "cells": set()}
        self.models.append(rec)
        m.new_space("A")
        m.new_space("B", bases=m.A)
        m.new_space("C")
        return rec

    def frame(self):
        self.nv += 1
        return pd.DataFrame({"x": [self.nv, self.nv + 1], "y": [1.5, 2.5]})

    def module_source(self):
        self.nv += 1
        if self.dir is None:
            self.dir = self.ctx.tmpdir("io")
        src = "TAG = %d\n\ndef triple(x):\n    return 3 * x + TAG\n" % self.nv
        p = os.path.join(self.dir, "src_mod_%d.py" % self.nv)
        with open(p, "w") as f:
            f.write(src)
        return p, src

    def container(self, rec, where):
        return rec["m"] if where == "" else rec["m"].spaces[where]

    # ---- expected state ------------------------------------------------------
    def mro(self, rec, where):
        """C3 order of the mirrored spaces, by CPython; None if there is none."""
        classes = {}

        def build(n, stack=()):
            if n in classes:
                return classes[n]
            if n in stack:
                raise TypeError("cycle")
            bs = tuple(build(b, stack + (n,)) for b in rec["spaces"][n])
            c = type(n, bs or (object,), {})
            classes[n] = c
            return c
        try:
            return [k.__name__ for k in build(where).__mro__ if k is not object]
        except TypeError:
            return None

    def visible(self, rec, where, name):
        """("vid", v) | ("plain", x) | None for `name` as seen from `where`: own, then bases in C3 order, then the model."""
        chain = [""] if where == "" else (self.mro(rec, where) or [where]) + [""]
        for w in chain:
            if (w, name) in rec["bind"]:
                return ("vid", rec["bind"][(w, name)])
            if (w, name) in rec["plain"]:
                return ("plain", rec["plain"][(w, name)])
        return None

    def cells_visible(self, rec, where, name):
        if where == "":
            return False
        return any((w, name) in rec["cells"] for w in (self.mro(rec, where) or [where]))

    def resolve(self, path):
        """ABS:<file> stands for an absolute location outside every model directory (shared by all models)."""
        if path.startswith("ABS:"):
            if self.dir is None:
                self.dir = self.ctx.tmpdir("io")
            return os.path.join(self.dir, "abs", path[4:])
        return path

    def visible_vid(self, rec, where, name):
        v = self.visible(rec, where, name)
        return v[1] if v and v[0] == "vid" else None

    def live_vids(self, rec):
        return set(rec["bind"].values())

    # ---- operations ----------------------------------------------------------
    def step(self, op):
        k = op["op"]
        rec = self.models[op["mi"] % len(self.models)]
        m = rec["m"]
        if "where" in op and op["where"] != "" and op["where"] not in rec["spaces"]:
            return
        self.events.append(repr(op))
        if k in ("new_pandas", "new_module"):
            cont = self.container(rec, op["where"])
            if self.dir is None:
                self.dir = self.ctx.tmpdir("io")
            path = self.resolve(op["path"])
            specs0 = list(m.iospecs)
            bind0 = dict(rec["bind"])
            val = None
            text = None
            second = False
            try:
                if k == "new_pandas" and op.get("same_value") and self.live_vids(rec):
                    # a second spec for a value that already has one: refused (or the two must stay consistent)
                    vid0 = sorted(self.live_vids(rec))[0]
                    val = None
                    cont.new_pandas(op["name"], path, rec["values"][vid0], file_type="csv")
                    second = True
                elif k == "new_pandas":
                    val = self.frame()
                    vid = self.nv
                    cont.new_pandas(op["name"], path, val, file_type="csv")
                else:
                    srcp, text = self.module_source()
                    vid = self.nv
                    val = cont.new_module(op["name"], path, srcp)
                ok = True
            except Exception as e:
                ok = False
                self.events.append("rejected %s" % type(e).__name__)
            if second:
                raise Violation("C18/second-spec-for-one-value-accepted", {"op": op})
            if ok and op["name"] not in cont.refs:
                raise Violation("C18/creation-accepted-without-a-reference", {"op": op, "is_cells": self.cells_visible(rec, op["where"], op["name"])})
            if ok:
                rec["values"][vid] = val
                rec["bind"][(op["where"], op["name"])] = vid
                rec["plain"].pop((op["where"], op["name"]), None)
                rec["paths"][vid] = path
                rec["kind"][vid] = k
                rec["text"][vid] = text
            else:
                self.ctx.count("rejected_creations", 1, "reach")
                if [id(s) for s in m.iospecs] != [id(s) for s in specs0]:
                    raise Violation("C18/rejected-creation-left-a-spec", {"op": op})
                if val is not None:
                    try:
                        sp_ = m.get_spec(val)
                    except Exception:
                        sp_ = None
                    if sp_ is not None:
                        raise Violation("C18/rejected-creation-left-a-spec/get_spec-finds-it", {"op": op})
                if val is not None and op["name"] in getattr(cont, "refs") and (op["where"], op["name"]) not in bind0 \
                        and self.visible(rec, op["where"], op["name"]) is None:
                    try:
                        v = cont.refs[op["name"]]
                        if v is val:
                            raise Violation("C18/rejected-creation-left-a-reference", {"op": op})
                    except KeyError:
                        pass
        elif k == "assign":
            if op["src_where"] != "" and op["src_where"] not in rec["spaces"]:
                return
            vid = self.visible_vid(rec, op["src_where"], op["src"])
            if vid is None or self.cells_visible(rec, op["where"], op["name"]):
                return
            cont = self.container(rec, op["where"])
            try:
                setattr(cont, op["name"], rec["values"][vid])
                rec["bind"][(op["where"], op["name"])] = vid
                rec["plain"].pop((op["where"], op["name"]), None)
            except Exception as e:
                self.events.append("assign rejected %s" % type(e).__name__)
        elif k == "rebind_plain":
            cont = self.container(rec, op["where"])
            if self.visible(rec, op["where"], op["name"]) is None or self.cells_visible(rec, op["where"], op["name"]):
                return
            try:
                setattr(cont, op["name"], op["v"])
                rec["bind"].pop((op["where"], op["name"]), None)
                rec["plain"][(op["where"], op["name"])] = op["v"]
            except Exception as e:
                self.events.append("rebind rejected %s" % type(e).__name__)
        elif k == "refused_del":
            # a deletion that modelx refuses (the reference overrides a base's 'relative' reference that the space could not
            # re-bind): the reference is still there afterwards - and so is the spec of the value it holds
            if any(n in rec["spaces"] for n in ("R0", "RA", "RS")) or any(n in m.refs for n in ("R0", "RA", "RS")):
                return
            if self.dir is None:
                self.dir = self.ctx.tmpdir("io")
            try:
                r0 = m.new_space("R0")
                ra = m.new_space("RA")
                rs = m.new_space("RS", bases=ra)
            except Exception:
                return
            rec["spaces"].update({"R0": [], "RA": [], "RS": ["RA"]})
            val = self.frame()
            vid = self.nv
            path = self.resolve("files/r%d.csv" % vid)
            try:
                rs.new_pandas("d1", path, val, file_type="csv")
            except Exception as e:
                self.events.append("refused_del: new_pandas rejected %s" % type(e).__name__)
                return
            rec["values"][vid] = val
            rec["bind"][("RS", "d1")] = vid
            rec["paths"][vid] = path
            rec["kind"][vid] = "new_pandas"
            rec["text"][vid] = None
            try:
                ra.relref(d1=r0)
                rec["plain"][("RA", "d1")] = r0
            except Exception as e:
                self.events.append("refused_del: relref rejected %s" % type(e).__name__)
                return
            try:
                del rs.d1
                rec["bind"].pop(("RS", "d1"), None)
                self.events.append("refused_del: deletion accepted")
            except Exception as e:
                self.events.append("refused_del: deletion refused %s" % type(e).__name__)
                self.ctx.count("refused_deletions_of_a_specd_reference", 1, "reach")
        elif k == "rebind_obj":
            # the name is bound to a modelx object (the model itself, absolute mode) instead: the value it held is released
            cont = self.container(rec, op["where"])
            if self.visible(rec, op["where"], op["name"]) is None or self.cells_visible(rec, op["where"], op["name"]):
                return
            try:
                if op["where"] == "":
                    setattr(cont, op["name"], m)
                else:
                    cont.absref(**{op["name"]: m})
                rec["bind"].pop((op["where"], op["name"]), None)
                rec["plain"][(op["where"], op["name"])] = m
                self.ctx.count("rebound_to_a_modelx_object", 1, "reach")
            except Exception as e:
                self.events.append("rebind rejected %s" % type(e).__name__)
        elif k == "del":
            cont = self.container(rec, op["where"])
            key = (op["where"], op["name"])
            if key not in rec["bind"] and key not in rec["plain"]:
                return
            try:
                delattr(cont, op["name"])
                rec["bind"].pop(key, None)
                rec["plain"].pop(key, None)
            except Exception as e:
                self.events.append("del rejected %s" % type(e).__name__)
        elif k == "update":
            vids = sorted(self.live_vids(rec))
            if not vids:
                return
            vid = vids[op["i"] % len(vids)]
            try:
                others = [v for v in vids if v != vid and rec["kind"][v] == "new_pandas"]
                if rec["kind"][vid] == "new_pandas" and op.get("onto_specd") and others:
                    # the new value is one that has a spec of its own: refused with nothing changed, or taken over with every
                    # invariant below still standing
                    other = others[op["i"] % len(others)]
                    self.ctx.count("update_onto_a_value_with_its_own_spec", 1, "reach")
                    m.update_pandas(rec["values"][vid], rec["values"][other])
                    for key, v in list(rec["bind"].items()):
                        if v == vid:
                            rec["bind"][key] = other
                    return
                if rec["kind"][vid] == "new_pandas":
                    new = self.frame()
                    nid = self.nv
                    text = None
                    if op.get("bind_first"):
                        # the new value is already held by another (plain) reference of the model when it takes over the spec
                        holder = "keep%d" % (nid % 3)
                        if holder not in m.refs:
                            setattr(m, holder, new)
                            rec["bind"][("", holder)] = nid
                            rec["values"][nid] = new
                            rec["paths"][nid] = rec["paths"].get(vid)
                            rec["kind"][nid] = rec["kind"][vid]
                            rec["text"][nid] = None
                            rec["prebound"] = nid
                    m.update_pandas(rec["values"][vid], new)
                else:
                    srcp, text = self.module_source()
                    nid = self.nv
                    m.update_module(rec["values"][vid], srcp)
                    new = None
                    for (w, n), v in rec["bind"].items():
                        if v == vid:
                            new = getattr(self.container(rec, w), n)
                            break
            except Exception as e:
                self.events.append("update rejected %s" % type(e).__name__)
                if rec.pop("prebound", None) is not None:
                    # the holder stays a plain binding without a spec: not one of the spec'd values
                    rec["bind"].pop(("", "keep%d" % (nid % 3)), None)
                    rec["plain"][("", "keep%d" % (nid % 3))] = None
                return
            rec.pop("prebound", None)
            rec["values"][nid] = new
            rec["paths"][nid] = rec["paths"].get(vid)
            rec["kind"][nid] = rec["kind"][vid]
            rec["text"][nid] = text
            for key, v in list(rec["bind"].items()):
                if v == vid:
                    rec["bind"][key] = nid
        elif k == "save":
            if self.dir is None:
                self.dir = self.ctx.tmpdir("io")
            p = os.path.join(self.dir, "saved_%s_%d" % (m.name, len(self.events)))
            try:
                m.write(p)
            except Exception as e:
                raise Violation("C18/save-failed/%s" % type(e).__name__, {"error": repr(e)[:300]})
            for vid in self.live_vids(rec):
                f = os.path.join(p, rec["paths"][vid])
                if not os.path.isfile(f):
                    raise Violation("C18/spec-file-not-written", {"path": rec["paths"][vid]})
                if rec["kind"][vid] == "new_pandas":
                    back = pd.read_csv(f, index_col=0)
                    want = rec["values"][vid]
                    if list(back["x"]) != list(want["x"]):
                        raise Violation("C18/spec-file-differs", {"path": rec["paths"][vid]})
                else:
                    if open(f).read() != rec["text"][vid]:
                        raise Violation("C18/spec-file-differs/module", {"path": rec["paths"][vid]})
            # ... and no file of a spec that no reference holds any more
            wanted = {os.path.normpath(rec["paths"][vid]) for vid in self.live_vids(rec)}
            for sub in ("files", "mods"):
                for dp, dn, fn in os.walk(os.path.join(p, sub)):
                    for f in fn:
                        rel = os.path.normpath(os.path.relpath(os.path.join(dp, f), p))
                        if rel not in wanted and not f.endswith(".pyc") and "__pycache__" not in rel:
                            raise Violation("C18/file-of-a-released-spec-written", {"path": rel, "live": sorted(wanted)})
            self.ctx.count("saves_checked", 1, "reach")
        elif k == "close":
            if len(self.models) < 2:
                return
            m.close()
            self.models.remove(rec)
            return
        elif k == "new_cells":
            if op["where"] == "":
                return
            cont = self.container(rec, op["where"])
            try:
                cont.new_cells(op["name"], formula="lambda: 1")
            except Exception as e:
                self.events.append("new_cells rejected %s" % type(e).__name__)
                return
            rec["cells"].add((op["where"], op["name"]))
            self.ctx.count("cells_created", 1, "reach")
        elif k == "new_space_refs":
            # a new space created with refs={name: value}: the value is bound by the creation itself
            if op["space"] in rec["spaces"] or op["space"] in m.refs:
                return
            vid = self.visible_vid(rec, op["src_where"], op["src"]) if (op["src_where"] == "" or op["src_where"] in rec["spaces"]) else None
            refs = {op["name"]: rec["values"][vid]} if vid is not None else {op["name"]: op["v"]}
            try:
                m.new_space(op["space"], refs=refs)
            except Exception as e:
                self.events.append("new_space rejected %s" % type(e).__name__)
                return
            rec["spaces"][op["space"]] = []
            if vid is not None:
                rec["bind"][(op["space"], op["name"])] = vid
            else:
                rec["plain"][(op["space"], op["name"])] = op["v"]
            self.ctx.count("spaces_created_with_refs", 1, "reach")
        elif k == "copy_space":
            if op["src"] not in rec["spaces"] or op["space"] in rec["spaces"] or op["space"] in m.refs:
                return
            seen = {}
            for w in (self.mro(rec, op["src"]) or [op["src"]]):
                for (ww, n), vid in rec["bind"].items():
                    if ww == w and n not in seen:
                        seen[n] = ("vid", vid)
                for (ww, n), x in rec["plain"].items():
                    if ww == w and n not in seen:
                        seen[n] = ("plain", x)
            try:
                m.spaces[op["src"]].copy(m, op["space"])
            except Exception as e:
                self.events.append("copy rejected %s" % type(e).__name__)
                return
            rec["spaces"][op["space"]] = []
            for w in (self.mro(rec, op["src"]) or [op["src"]]) if False else [op["src"]]:
                for (ww, n) in list(rec["cells"]):
                    if ww == w:
                        rec["cells"].add((op["space"], n))
            for n, (kind, x) in seen.items():
                (rec["bind"] if kind == "vid" else rec["plain"])[(op["space"], n)] = x
            self.ctx.count("spaces_copied", 1, "reach")
        elif k == "del_space":
            if op["space"] not in rec["spaces"]:
                return
            try:
                delattr(m, op["space"])
            except Exception as e:
                self.events.append("del_space rejected %s" % type(e).__name__)
                return
            del rec["spaces"][op["space"]]
            rec["cells"] = {c for c in rec["cells"] if c[0] != op["space"]}
            for d in (rec["bind"], rec["plain"]):
                for key in [key for key in d if key[0] == op["space"]]:
                    del d[key]
            for n, bs in rec["spaces"].items():
                if op["space"] in bs:
                    bs.remove(op["space"])
            self.ctx.count("spaces_deleted", 1, "reach")
        elif k in ("add_base", "remove_base"):
            s, t = op["space"], op["base"]
            if s not in rec["spaces"] or t not in rec["spaces"] or s == t:
                return
            if k == "add_base":
                if t in rec["spaces"][s]:
                    return
                rec["spaces"][s].append(t)
                ok = all(self.mro(rec, n) is not None for n in rec["spaces"])
                rec["spaces"][s].pop()
                if not ok:
                    return
                try:
                    m.spaces[s].add_bases(m.spaces[t])
                except Exception as e:
                    self.events.append("add_base rejected %s" % type(e).__name__)
                    return
                rec["spaces"][s].append(t)
            else:
                if t not in rec["spaces"][s]:
                    return
                try:
                    m.spaces[s].remove_bases(m.spaces[t])
                except Exception as e:
                    self.events.append("remove_base rejected %s" % type(e).__name__)
                    return
                rec["spaces"][s].remove(t)
            self.ctx.count("base_changes", 1, "reach")
        self.check(op)

    def check(self, op):
        for rec in self.models:
            m = rec["m"]
            specs = m.iospecs
            got = [s.value for s in specs]
            want_ids = self.live_vids(rec)
            want = [rec["values"][v] for v in want_ids]
            self.ctx.count("states_checked", 1, "reach")
            for v in got:
                if not any(v is w for w in want):
                    raise Violation("C18/spec-without-reference/after=" + op["op"], {"op": op, "n_specs": len(got), "n_bound": len(want)})
            for w in want:
                if not any(v is w for v in got):
                    raise Violation("C18/bound-value-without-spec/after=" + op["op"], {"op": op, "n_specs": len(got), "n_bound": len(want)})
            if len(got) != len(want):
                raise Violation("C18/duplicate-specs/after=" + op["op"], {"n_specs": len(got), "n_bound": len(want)})
            locs = [str(s.path) for s in specs]
            if len(set(locs)) != len(locs):
                raise Violation("C18/two-specs-same-file/after=" + op["op"], {"paths": locs})
            for w in want:
                try:
                    if m.get_spec(w).value is not w:
                        raise Violation("C18/get_spec-inconsistent/after=" + op["op"], {})
                except ValueError:
                    raise Violation("C18/get_spec-missing/after=" + op["op"], {})
            # bindings themselves, own and inherited
            for where in [""] + sorted(rec["spaces"]):
                cont = self.container(rec, where)
                for name in NAMES:
                    if self.cells_visible(rec, where, name):
                        continue
                    exp = self.visible(rec, where, name)
                    if exp is None:
                        continue
                    try:
                        have = getattr(cont, name)
                    except AttributeError:
                        raise Violation("C18/reference-missing/after=" + op["op"], {"where": where, "name": name})
                    if exp[0] == "vid":
                        if have is not rec["values"][exp[1]]:
                            raise Violation("C18/reference-lost-its-value/after=" + op["op"], {"where": where, "name": name})
                        if where != "" and (where, name) not in rec["bind"]:
                            self.ctx.count("inherited_bindings_checked", 1, "reach")
                    elif (have is not exp[1]) if exp[1] is rec["m"] else (have != exp[1]):
                        raise Violation("C18/reference-lost-its-value/plain/after=" + op["op"], {"where": where, "name": name})
            if len(want) >= 1 and any(list(rec["bind"].values()).count(v) > 1 for v in want_ids):
                self.ctx.nontrivial = True
        if isinstance(library_self_check(), AssertionError):
            raise Violation("C18/sanity-check-failed/after=" + op["op"], {"op": op})

    def gen(self):
        rng = self.rng
        mi = rng.randrange(len(self.models))
        rec = self.models[mi]
        pool = [""] + sorted(rec["spaces"])
        where = rng.choice(pool)
        name = rng.choice(NAMES)
        r = rng.random()
        if self.cfg.get("structure") and r < 0.22:
            q = rng.random()
            if q < 0.25:
                return {"op": "new_space_refs", "mi": mi, "space": rng.choice(EXTRA), "name": name, "src_where": rng.choice(pool),
                        "src": rng.choice(NAMES), "v": rng.randrange(100)}
            if q < 0.45:
                return {"op": "copy_space", "mi": mi, "src": rng.choice(SPACES + EXTRA), "space": rng.choice(EXTRA)}
            if q < 0.65:
                return {"op": "del_space", "mi": mi, "space": rng.choice(SPACES + EXTRA)}
            if q < 0.85:
                return {"op": "add_base", "mi": mi, "space": rng.choice(SPACES + EXTRA), "base": rng.choice(SPACES + EXTRA)}
            return {"op": "remove_base", "mi": mi, "space": rng.choice(SPACES + EXTRA), "base": rng.choice(SPACES + EXTRA)}
        if self.cfg.get("cells") and r < 0.3 and rng.random() < 0.2 and rec["spaces"]:
            return {"op": "new_cells", "mi": mi, "where": rng.choice(sorted(rec["spaces"])), "name": name}
        if r < 0.3:
            path = "files/%s.csv" % rng.choice(["p1", "p2", "p3", "p4"])
            if self.cfg.get("abs_paths") and rng.random() < 0.35:
                path = "ABS:%s.csv" % rng.choice(["a1", "a2"])
            if self.cfg.get("modules") and rng.random() < 0.35:
                return {"op": "new_module", "mi": mi, "where": where, "name": name, "path": "mods/%s.py" % rng.choice(["m1", "m2"])}
            return {"op": "new_pandas", "mi": mi, "where": where, "name": name, "path": path, "same_value": rng.random() < 0.12}
        if r < 0.5:
            return {"op": "assign", "mi": mi, "where": where, "name": name, "src_where": rng.choice(pool), "src": rng.choice(NAMES)}
        if r < 0.52 and rng.random() < 0.25:
            return {"op": "refused_del", "mi": mi}
        if r < 0.6:
            if rng.random() < 0.3:
                return {"op": "rebind_obj", "mi": mi, "where": where, "name": name}
            return {"op": "rebind_plain", "mi": mi, "where": where, "name": name, "v": rng.randrange(100)}
        if r < 0.8:
            return {"op": "del", "mi": mi, "where": where, "name": name}
        if r < 0.9:
            return {"op": "update", "mi": mi, "i": rng.randrange(10), "bind_first": rng.random() < 0.3, "onto_specd": rng.random() < 0.2}
        if r < 0.9 + self.cfg["p_save"]:
            return {"op": "save", "mi": mi}
        if r < 0.98:
            return {"op": "new_pandas", "mi": mi, "where": where, "name": rng.choice(["A", "B", "1x", name]), "path": "files/p1.csv"}
        return {"op": "close", "mi": mi}


class C18(PropBase):
    id = "C18"
    level = "exploration"
    rule = ("one case = one seeded history over one or two models with spaces A, B(A), C (+ D, E created on the way): "
            "new_pandas (csv) and new_module on the model and on "
            "spaces with colliding names and file locations (incl. hostile creations: name of a space, invalid name, taken "
            "file), plain assignment of the same value to further names, rebinding to plain values and to modelx objects, deleting references "
            "(base before derived and the reverse), update_pandas / update_module, new_space(refs=...), Space.copy, deleting "
            "spaces, add_bases / remove_bases, saving, closing a model; after every step, per model: "
            "iospecs values == values bound to at least one reference (by identity, no duplicates), no two specs share a "
            "file, get_spec consistent, references keep their values, system self-checks pass, a rejected creation leaves "
            "neither spec nor reference, saved files read back; non-trivial = some value was bound to two names at once; "
            "distinct = distinct event-log digest")
    tiers = {"quick": {"budget_s": 40, "timeout_s": 90}, "thorough": {"budget_s": 900, "timeout_s": 180}}
    reach_probes = ["reach/states_checked", "reach/rejected_creations", "reach/saves_checked", "reach/spaces_created_with_refs",
                    "reach/spaces_copied", "reach/spaces_deleted", "reach/base_changes", "reach/inherited_bindings_checked"]
    assumptions = ["csv PandasData and ModuleData (no Excel)", "real pandas and real files on tmpfs; no faults injected"]

    def execute(self, ctx):
        if ctx.doc is None:
            ctx.cfg = swarm(ctx.rng("cfg"))
        ses = Session(ctx)
        ses.new_model("M")
        if ctx.cfg.get("two_models"):
            ses.new_model("N")
        ctx.events = ses.events
        if ctx.doc is None:
            for i in range(ctx.cfg["n_steps"]):
                op = ses.gen()
                ctx.steps.append(op)
                ses.step(op)
        else:
            for op in ctx.doc["steps"]:
                ctx.steps.append(op)
                ses.step(op)
        ctx.nsteps = len(ctx.steps)


PROP = C18()
