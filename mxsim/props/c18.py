"""C18 - an IOSpec lives exactly as long as a reference to its value."""
import os
import modelx as mx
import pandas as pd
from .base import PropBase, Violation
from .. import machine, kernel
from ..world import library_self_check

SPACES = ["A", "B", "C"]
NAMES = ["d1", "d2", "d3"]


def swarm(rng):
    return {"n_steps": rng.choice([10, 16, 24, 32]), "two_models": rng.random() < 0.4, "p_hostile": rng.choice([0.1, 0.25]),
            "p_save": rng.choice([0.05, 0.15])}


class Session:
    def __init__(self, ctx):
        self.ctx = ctx
        self.cfg = ctx.cfg
        self.rng = ctx.rng("ops")
        self.dir = None
        self.models = []       # dicts: {"m": Model, "values": {vid: DataFrame}, "bind": {(space, name): vid}}
        self.nv = 0
        self.events = []

    def new_model(self, name):
        m = mx.new_model(name)
        rec = {"m": m, "values": {}, "bind": {}, "paths": {}}
        self.models.append(rec)
        m.new_space("A")
        m.new_space("B", bases=m.A)
        m.new_space("C")
        return rec

    def frame(self):
        self.nv += 1
        return pd.DataFrame({"x": [self.nv, self.nv + 1], "y": [1.5, 2.5]})

    def container(self, rec, where):
        return rec["m"] if where == "" else rec["m"].spaces[where]

    # ---- expected state ------------------------------------------------------
    def visible(self, rec, where, name):
        """vid bound to `name` as seen from `where` (B derives from A)."""
        if (where, name) in rec["bind"]:
            return rec["bind"][(where, name)]
        if where == "B" and ("A", name) in rec["bind"]:
            return rec["bind"][("A", name)]
        return None

    def live_vids(self, rec):
        return set(rec["bind"].values())

    # ---- operations ----------------------------------------------------------
    def step(self, op):
        k = op["op"]
        rec = self.models[op["mi"] % len(self.models)]
        m = rec["m"]
        self.events.append(repr(op))
        if k == "new_pandas":
            cont = self.container(rec, op["where"])
            if self.dir is None:
                self.dir = self.ctx.tmpdir("io")
            df = self.frame()
            vid = self.nv
            path = op["path"]
            specs0 = list(m.iospecs)
            bind0 = dict(rec["bind"])
            try:
                cont.new_pandas(op["name"], path, df, file_type="csv")
                ok = True
            except Exception as e:
                ok = False
                self.events.append("rejected %s" % type(e).__name__)
            if ok:
                rec["values"][vid] = df
                rec["bind"][(op["where"], op["name"])] = vid
                rec["paths"][vid] = path
            else:
                self.ctx.count("rejected_creations", 1, "reach")
                if [id(s) for s in m.iospecs] != [id(s) for s in specs0]:
                    raise Violation("C18/rejected-creation-left-a-spec", {"op": op})
                if op["name"] in getattr(cont, "refs") and (op["where"], op["name"]) not in bind0 and self.visible(rec, op["where"], op["name"]) is None:
                    try:
                        v = cont.refs[op["name"]]
                        if v is df:
                            raise Violation("C18/rejected-creation-left-a-reference", {"op": op})
                    except KeyError:
                        pass
        elif k == "assign":
            vid = self.visible(rec, op["src_where"], op["src"])
            if vid is None:
                return
            cont = self.container(rec, op["where"])
            try:
                setattr(cont, op["name"], rec["values"][vid])
                rec["bind"][(op["where"], op["name"])] = vid
            except Exception as e:
                self.events.append("assign rejected %s" % type(e).__name__)
        elif k == "rebind_plain":
            cont = self.container(rec, op["where"])
            if (op["where"], op["name"]) not in rec["bind"] and self.visible(rec, op["where"], op["name"]) is None:
                return
            try:
                setattr(cont, op["name"], op["v"])
                rec["bind"].pop((op["where"], op["name"]), None)
                rec.setdefault("plain", {})[(op["where"], op["name"])] = op["v"]
            except Exception as e:
                self.events.append("rebind rejected %s" % type(e).__name__)
        elif k == "del":
            cont = self.container(rec, op["where"])
            key = (op["where"], op["name"])
            if key not in rec["bind"] and key not in rec.get("plain", {}):
                return
            try:
                delattr(cont, op["name"])
                rec["bind"].pop(key, None)
                rec.get("plain", {}).pop(key, None)
            except Exception as e:
                self.events.append("del rejected %s" % type(e).__name__)
        elif k == "update":
            vids = sorted(self.live_vids(rec))
            if not vids:
                return
            vid = vids[op["i"] % len(vids)]
            new = self.frame()
            nid = self.nv
            try:
                m.update_pandas(rec["values"][vid], new)
            except Exception as e:
                self.events.append("update rejected %s" % type(e).__name__)
                return
            rec["values"][nid] = new
            rec["paths"][nid] = rec["paths"].get(vid)
            for key, v in list(rec["bind"].items()):
                if v == vid:
                    rec["bind"][key] = nid
        elif k == "save":
            if self.dir is None:
                self.dir = self.ctx.tmpdir("io")
            p = os.path.join(self.dir, "saved_%s_%d" % (m.name, len(self.events)))
            try:
                m.write(p)
            except Exception as e:
                raise Violation("C18/save-failed/%s" % type(e).__name__, {"error": repr(e)[:300]})
            for vid in self.live_vids(rec):
                f = os.path.join(p, rec["paths"][vid])
                if not os.path.isfile(f):
                    raise Violation("C18/spec-file-not-written", {"path": rec["paths"][vid]})
                back = pd.read_csv(f, index_col=0)
                want = rec["values"][vid]
                if list(back["x"]) != list(want["x"]):
                    raise Violation("C18/spec-file-differs", {"path": rec["paths"][vid]})
            self.ctx.count("saves_checked", 1, "reach")
        elif k == "close":
            if len(self.models) < 2:
                return
            m.close()
            self.models.remove(rec)
            return
        self.check(op)

    def check(self, op):
        for rec in self.models:
            m = rec["m"]
            specs = m.iospecs
            got = [s.value for s in specs]
            want_ids = self.live_vids(rec)
            want = [rec["values"][v] for v in want_ids]
            self.ctx.count("states_checked", 1, "reach")
            for v in got:
                if not any(v is w for w in want):
                    raise Violation("C18/spec-without-reference/after=" + op["op"], {"op": op, "n_specs": len(got), "n_bound": len(want)})
            for w in want:
                if not any(v is w for v in got):
                    raise Violation("C18/bound-value-without-spec/after=" + op["op"], {"op": op, "n_specs": len(got), "n_bound": len(want)})
            if len(got) != len(want):
                raise Violation("C18/duplicate-specs/after=" + op["op"], {"n_specs": len(got), "n_bound": len(want)})
            locs = [str(s.path) for s in specs]
            if len(set(locs)) != len(locs):
                raise Violation("C18/two-specs-same-file/after=" + op["op"], {"paths": locs})
            for w in want:
                try:
                    if m.get_spec(w).value is not w:
                        raise Violation("C18/get_spec-inconsistent/after=" + op["op"], {})
                except ValueError:
                    raise Violation("C18/get_spec-missing/after=" + op["op"], {})
            # bindings themselves
            for (where, name), vid in rec["bind"].items():
                cont = self.container(rec, where)
                if getattr(cont, name) is not rec["values"][vid]:
                    raise Violation("C18/reference-lost-its-value/after=" + op["op"], {"where": where, "name": name})
            if len(want) >= 1 and any(list(rec["bind"].values()).count(v) > 1 for v in want_ids):
                self.ctx.nontrivial = True
        if isinstance(library_self_check(), AssertionError):
            raise Violation("C18/sanity-check-failed/after=" + op["op"], {"op": op})

    def gen(self):
        rng = self.rng
        mi = rng.randrange(len(self.models))
        where = rng.choice(["", "A", "B", "C"])
        name = rng.choice(NAMES)
        r = rng.random()
        if r < 0.3:
            path = "files/%s.csv" % rng.choice(["p1", "p2", "p3", "p4"])
            return {"op": "new_pandas", "mi": mi, "where": where, "name": name, "path": path}
        if r < 0.5:
            return {"op": "assign", "mi": mi, "where": where, "name": name, "src_where": rng.choice(["", "A", "B", "C"]), "src": rng.choice(NAMES)}
        if r < 0.6:
            return {"op": "rebind_plain", "mi": mi, "where": where, "name": name, "v": rng.randrange(100)}
        if r < 0.8:
            return {"op": "del", "mi": mi, "where": where, "name": name}
        if r < 0.9:
            return {"op": "update", "mi": mi, "i": rng.randrange(10)}
        if r < 0.9 + self.cfg["p_save"]:
            return {"op": "save", "mi": mi}
        if r < 0.98:
            return {"op": "new_pandas", "mi": mi, "where": where, "name": rng.choice(["A", "B", "1x", name]), "path": "files/p1.csv"}
        return {"op": "close", "mi": mi}


class C18(PropBase):
    id = "C18"
    level = "exploration"
    rule = ("one case = one seeded history over one or two models with spaces A, B(A), C: new_pandas (csv) on the model and on "
            "spaces with colliding names and file locations (incl. hostile creations: name of a space, invalid name, taken "
            "file), plain assignment of the same value to further names, rebinding to plain values, deleting references "
            "(base before derived and the reverse), update_pandas, saving, closing a model; after every step, per model: "
            "iospecs values == values bound to at least one reference (by identity, no duplicates), no two specs share a "
            "file, get_spec consistent, references keep their values, system self-checks pass, a rejected creation leaves "
            "neither spec nor reference, saved files read back; non-trivial = some value was bound to two names at once; "
            "distinct = distinct event-log digest")
    tiers = {"quick": {"budget_s": 40, "timeout_s": 90}, "thorough": {"budget_s": 900, "timeout_s": 180}}
    reach_probes = ["reach/states_checked", "reach/rejected_creations", "reach/saves_checked"]
    assumptions = ["csv PandasData only (no Excel, no modules)", "real pandas and real files on tmpfs; no faults injected"]

    def execute(self, ctx):
        if ctx.doc is None:
            ctx.cfg = swarm(ctx.rng("cfg"))
        ses = Session(ctx)
        ses.new_model("M")
        if ctx.cfg.get("two_models"):
            ses.new_model("N")
        ctx.events = ses.events
        if ctx.doc is None:
            for i in range(ctx.cfg["n_steps"]):
                op = ses.gen()
                ctx.steps.append(op)
                ses.step(op)
        else:
            for op in ctx.doc["steps"]:
                ctx.steps.append(op)
                ses.step(op)
        ctx.nsteps = len(ctx.steps)


PROP = C18()
