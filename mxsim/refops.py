"""Mirror accepted operations into the RefModel, and check symbolic preconditions.

The RefModel mirrors acceptance: an operation is applied to it iff modelx accepted it.
"""
from collections import OrderedDict
from . import refmodel as rm


def sp(model, path):
    return model.space(path) if path else model


def precond(model, op):
    """True if the symbolic targets of op exist in the RefModel (else the step is a recorded no-op)."""
    k = op["op"]
    def S(p):
        s = sp(model, p)
        return s is not None
    if k == "new_space":
        return S(op.get("parent") or "") and all(S(b) for b in op.get("bases") or []) and \
            (op.get("formula") is None or _sf_ok(model, op["formula"]))
    if k in ("del_space", "rename_space", "copy_space", "set_sformula", "del_sformula", "space_clear_all",
             "space_clear_cells", "clear_items"):
        return bool(op["space"]) and S(op["space"]) and (k != "set_sformula" or _sf_ok(model, op["formula"]))
    if k in ("add_bases", "remove_bases"):
        return bool(op["space"]) and S(op["space"]) and all(S(b) for b in op["bases"])
    if k == "new_cells":
        return bool(op["space"]) and S(op["space"])
    if k in ("del_cells", "rename_cells", "set_formula", "del_formula", "set_cached", "set_value",
             "clear_at", "clear", "clear_all"):
        if not (op["space"] and S(op["space"])):
            return False
        s = sp(model, op["space"])
        if op.get("force"):
            return True
        try:
            return op["name"] in rm.derived_cells(s)
        except rm.NoMRO:
            return False
    if k in ("set_allow_none", "set_doc"):
        if not S(op.get("space") or ""):
            return False
        if op.get("name"):
            return op["name"] in rm.derived_cells(sp(model, op["space"]))
        return True
    if k == "set_ref":
        if not S(op.get("space") or ""):
            return False
        v = op["value"]
        if v["t"] == "obj":
            ts = sp(model, v.get("space") or "")
            if ts is None:
                return False
            if v.get("cells") and (isinstance(ts, rm.RModel) or v["cells"] not in rm.derived_cells(ts)):
                return False
        return True
    if k == "del_ref":
        return S(op.get("space") or "")
    if k == "eval":
        return True
    return True


def _sf_ok(model, sf):
    ret = sf.get("ret")
    if ret and "base" in ret:
        return model.space(ret["base"]) is not None
    return True


def value_of(model, vs):
    t = vs["t"]
    if t == "obj":
        s = sp(model, vs.get("space") or "")
        if vs.get("cells"):
            d = rm.derived_cells(s)[vs["cells"]]
            # a reference to a derived cells denotes the copy living in that space
            if d[0] is s:
                return d[1]
            return ("cells-of", s, vs["cells"])
        return s
    if t == "fn":
        return ("fn", vs["v"])
    if t == "bomb":
        return ("bomb", vs["v"])
    if t == "frame":
        return ("frame", tuple(vs["v"]))
    if t == "list":
        return list(vs["v"])
    if t == "tuple":
        return tuple(vs["v"])
    if t == "none":
        return None
    return vs["v"]


def apply(model, op):
    """Apply an ACCEPTED op to the RefModel."""
    k = op["op"]
    fn = globals().get("a_" + k)
    if fn:
        fn(model, op)


def a_new_space(m, op):
    parent = sp(m, op.get("parent") or "")
    s = rm.RSpace(op["name"], parent)
    s.bases = [sp(m, b) for b in op.get("bases") or []]
    s.formula = op.get("formula")
    parent.spaces[op["name"]] = s
    for n, v in (op.get("refs") or {}).items():
        s.refs[n] = rm.RRef(n, v, "auto")


def a_del_space(m, op):
    s = sp(m, op["space"])
    dead = list(s.walk())
    del s.parent.spaces[s.name]
    for d in dead:
        d.deleted = True
        for c in d.cells.values():
            c.deleted = True
    for o in m.all_spaces():
        o.bases = [b for b in o.bases if not b.deleted]


def _rekey(od, old, new):
    items = [(new if k == old else k, v) for k, v in od.items()]
    od.clear()
    od.update(items)


def a_rename_space(m, op):
    s = sp(m, op["space"])
    _rekey(s.parent.spaces, s.name, op["new"])
    s.name = op["new"]
    for d in s.walk():
        d.inputs.clear()


def a_add_bases(m, op):
    s = sp(m, op["space"])
    for b in op["bases"]:
        s.bases.append(sp(m, b))


def a_remove_bases(m, op):
    s = sp(m, op["space"])
    rem = [sp(m, b) for b in op["bases"]]
    s.bases = [b for b in s.bases if b not in rem]


def a_set_sformula(m, op):
    sp(m, op["space"]).formula = op["formula"]


def a_del_sformula(m, op):
    sp(m, op["space"]).formula = None


def a_new_cells(m, op):
    s = sp(m, op["space"])
    c = rm.RCells(op["name"], op.get("formula"), op.get("is_cached", True))
    c.space = s
    c.pname = op["name"]      # the name baked into the probe calls of the rendered formula
    s.cells[op["name"]] = c


def a_del_cells(m, op):
    s = sp(m, op["space"])
    c = s.cells.pop(op["name"])
    c.deleted = True
    for k in [k for k in s.inputs if k[0] == op["name"]]:
        del s.inputs[k]


def a_rename_cells(m, op):
    s = sp(m, op["space"])
    old, new = op["name"], op["new"]
    cells = s.cells.get(old)
    # decide first, rename afterwards: a sub's overriding cells follows if the renamed cells is its nearest definition
    targets = [s]
    for t in rm.subs_of(m, s):
        if old in t.cells:
            nearest = None
            for b in rm.mro(t)[1:]:
                if old in b.cells:
                    nearest = b
                    break
            if nearest is s and new not in rm.derived_cells(t):
                targets.append(t)
    for t in targets:
        if old in t.cells:
            c = t.cells[old]
            _rekey(t.cells, old, new)
            c.name = new
        for k in [k for k in t.inputs if k[0] == old]:
            del t.inputs[k]


def _define(m, s, name):
    """Cells `name` becomes defined in s (override) keeping the properties it showed as derived."""
    if name in s.cells:
        return s.cells[name]
    definer, base = rm.derived_cells(s)[name]
    c = base.copy()
    c.space = s
    s.cells[name] = c
    return c


def a_set_formula(m, op):
    s = sp(m, op["space"])
    c = _define(m, s, op["name"])
    c.formula = op.get("formula")
    c.pname = op["name"]
    for k in [k for k in s.inputs if k[0] == op["name"]]:
        del s.inputs[k]


def a_del_formula(m, op):
    s = sp(m, op["space"])
    c = _define(m, s, op["name"])
    c.formula = None


def a_set_cached(m, op):
    s = sp(m, op["space"])
    c = _define(m, s, op["name"])
    c.is_cached = op["v"]
    for k in [k for k in s.inputs if k[0] == op["name"]]:
        del s.inputs[k]


def a_set_allow_none(m, op):
    t = sp(m, op.get("space") or "")
    if op.get("name"):
        # setting a property of a derived cells defines it there (modelx: only the flag is set on that copy; the
        # RefModel keeps it on an overriding copy so that later derivations see it)
        c = _define(m, t, op["name"]) if False else rm.derived_cells(t)[op["name"]][1]
        c.allow_none = op["v"] if op["v"] is None else bool(op["v"])
    else:
        t.allow_none = op["v"] if op["v"] is None else bool(op["v"])


def a_set_doc(m, op):
    t = sp(m, op.get("space") or "")
    if op.get("name"):
        c = _define(m, t, op["name"])
        if c.formula is not None:
            f = dict(c.formula)
            if f["style"] == "def":
                f["doc"] = op["v"]
            else:
                f["ldoc"] = op["v"]
            c.formula = f
    else:
        t.doc = op["v"]


def a_set_ref(m, op):
    t = sp(m, op.get("space") or "")
    mode = op.get("mode") or "auto"
    if isinstance(t, rm.RModel):
        mode = None
    else:
        # assigning to the name of a scalar cells sets its value instead (modelx semantics)
        if op["name"] in rm.derived_cells(t):
            t.inputs[(op["name"], ())] = op["value"].get("v")
            return
    t.refs[op["name"]] = rm.RRef(op["name"], value_of(m, op["value"]), mode)


def a_del_ref(m, op):
    t = sp(m, op.get("space") or "")
    t.refs.pop(op["name"], None)


def a_set_value(m, op):
    s = sp(m, op["space"])
    s.inputs[(op["name"], tuple(op.get("key", op["args"])))] = op["value"]


def a_clear_at(m, op):
    s = sp(m, op["space"])
    s.inputs.pop((op["name"], tuple(op.get("key", op.get("args", ())))), None)


def a_clear_all(m, op):
    s = sp(m, op["space"])
    for k in [k for k in s.inputs if k[0] == op["name"]]:
        del s.inputs[k]


def a_space_clear_all(m, op):
    for d in sp(m, op["space"]).walk():
        d.inputs.clear()


def a_space_clear_cells(m, op):
    if op.get("clear_input"):
        s = sp(m, op["space"])
        for d in (s.walk() if op.get("recursive", True) else [s]):
            d.inputs.clear()


def a_model_clear_all(m, op):
    for d in m.all_spaces():
        d.inputs.clear()
