"""Hostile edits (fault kind F6): every rejection reason x every operation that can trigger it,
instantiated against the current RefModel state."""
from . import refmodel as rm, gen

BAD_NAMES = ["1abc", "class", "_hidden", "a b", "", "lambda", "__x__", "x-y"]
BAD_OBJECTS = ["int", "builtin", "two-lambdas", "object"]
BAD_SOURCES = ["lambda x: (", "def f(x) return x", "not a function", "lambda : : 3", "def (x): return x",
               "x = 3"]


def _first_without_mro(spaces):
    for u in spaces:
        try:
            rm.mro(u)
        except rm.NoMRO:
            return u
    return None


def _tree(s):
    yield s
    for c in s.spaces.values():
        yield from _tree(c)


def candidates(mach):
    """All hostile operations applicable to the current state (a list of ops)."""
    m = mach.ref
    out = []
    spaces = list(m.all_spaces())
    for s in spaces:
        p = s.path()
        dc = gen.visible_cells(s)
        try:
            dr = rm.derived_refs(s)
        except rm.NoMRO:
            dr = {}
        # names clashing across kinds, in the space
        for n in list(s.spaces):
            out.append({"op": "new_cells", "space": p, "name": n, "src": "lambda x: x", "why": "cells-vs-space"})
            out.append({"op": "set_ref", "space": p, "name": n, "value": {"t": "int", "v": 5}, "why": "ref-vs-space"})
        for n in list(s.spaces):
            out.append({"op": "new_cells", "space": p, "name": n, "src": "def %s(x):\n    return x" % n, "autoname": True, "why": "cells-vs-space-autoname"})
        for n in list(dr):
            out.append({"op": "new_cells", "space": p, "name": n, "src": "def %s(x):\n    return x" % n, "autoname": True, "why": "cells-vs-ref-autoname"})
            out.append({"op": "new_cells", "space": p, "name": n, "src": "lambda x: x", "why": "cells-vs-ref"})
            out.append({"op": "new_space", "parent": p, "name": n, "bases": [], "why": "space-vs-ref"})
        for n in list(dc):
            out.append({"op": "new_cells", "space": p, "name": n, "src": "lambda x: x", "why": "cells-dup"})
            out.append({"op": "new_space", "parent": p, "name": n, "bases": [], "why": "space-vs-cells"})
            d, c = dc[n]
            if d is not s:
                out.append({"op": "del_cells", "space": p, "name": n, "how": "delattr", "why": "del-derived"})
                out.append({"op": "del_cells", "space": p, "name": n, "how": "delitem", "why": "del-derived"})
                out.append({"op": "rename_cells", "space": p, "name": n, "new": "zz", "why": "rename-derived"})
            params = c.formula["params"] if c.formula else []
            for bad in BAD_SOURCES[:3]:
                out.append({"op": "set_formula", "space": p, "name": n, "src": bad, "why": "malformed"})
            for bad in BAD_OBJECTS:
                out.append({"op": "set_formula", "space": p, "name": n, "src": "<%s>" % bad, "badobj": bad, "why": "malformed-object"})
            out.append({"op": "rename_cells", "space": p, "name": n, "new": BAD_NAMES[len(out) % len(BAD_NAMES)], "why": "badname"})
            others = [x for x in list(dc) + list(dr) + list(s.spaces) if x != n]
            if others:
                out.append({"op": "rename_cells", "space": p, "name": n, "new": others[len(out) % len(others)], "why": "rename-clash"})
            if c.is_cached:
                args = [1 for _p, dflt in params if dflt is None]
                out.append({"op": "set_value", "space": p, "name": n, "args": args, "value": None, "why": "none-value"})
                if params:
                    out.append({"op": "set_value", "space": p, "name": n, "args": [], "value": 77, "how": "attr", "why": "attr-nonscalar"})
                    out.append({"op": "set_value", "space": p, "name": n, "args": [], "value": 77, "how": "value", "why": "value-nonscalar"})
                out.append({"op": "set_value", "space": p, "name": n, "args": [1] * (len(params) + 1), "value": 77, "why": "arity"})
            else:
                out.append({"op": "set_value", "space": p, "name": n, "args": [1 for _p, dflt in params if dflt is None],
                            "value": 77, "why": "set-uncached"})
        for n, (d, r) in dr.items():
            if d is not s:
                out.append({"op": "del_ref", "space": p, "name": n, "why": "del-derived-ref"})
        out.append({"op": "del_ref", "space": p, "name": "nosuch", "why": "del-missing"})
        out.append({"op": "del_cells", "space": p, "name": "nosuch", "how": "delattr", "why": "del-missing", "force": True})
        for bad in BAD_NAMES:
            out.append({"op": "new_cells", "space": p, "name": bad, "src": "lambda x: x", "why": "badname"})
            for n in list(dc)[:1]:
                # an invalid explicit name together with a def formula named like an existing cells
                out.append({"op": "new_cells", "space": p, "name": bad, "src": "def %s(x):\n    return x" % n, "why": "badname-def-of-existing"})
            out.append({"op": "new_space", "parent": p, "name": bad, "bases": [], "why": "badname"})
            out.append({"op": "rename_space", "space": p, "new": bad, "why": "badname"})
            out.append({"op": "set_ref", "space": p, "name": bad, "value": {"t": "int", "v": 5}, "why": "badname"})
        for bad in BAD_OBJECTS:
            out.append({"op": "new_cells", "space": p, "name": "zz", "src": "<%s>" % bad, "badobj": bad, "why": "malformed-object"})
            # the same objects as a parameter formula, over an existing one or as the first
            out.append({"op": "set_sformula", "space": p, "sfsrc": "<%s>" % bad, "badobj": bad, "formula": {"params": [], "ret": None},
                        "why": "malformed-object-sformula" + ("-over-existing" if s.formula is not None else "")})
        for bad in BAD_SOURCES:
            out.append({"op": "new_cells", "space": p, "name": "zz", "src": bad, "why": "malformed"})
            out.append({"op": "set_sformula", "space": p, "sfsrc": bad, "formula": {"params": [], "ret": None}, "why": "malformed"})
        # inheritance
        out.append({"op": "add_bases", "space": p, "bases": [p], "why": "self-base"})
        for t in spaces:
            if t is s:
                continue
            try:
                if s in rm.mro(t):
                    out.append({"op": "add_bases", "space": p, "bases": [t.path()], "why": "cycle"})
            except rm.NoMRO:
                pass
            if t not in s.bases:
                out.append({"op": "remove_bases", "space": p, "bases": [t.path()], "why": "remove-nonbase"})
            # an ordering that has no C3 linearisation: s(bases=[X, Y]) where Y derives from X ... reversed
            try:
                if t in rm.mro(s)[1:]:
                    for u in spaces:
                        if u is not s and u is not t and t in rm.mro(u)[1:] and u not in rm.mro(s):
                            out.append({"op": "new_space", "parent": "", "name": "ZZ", "bases": [t.path(), u.path()], "why": "no-mro"})
            except rm.NoMRO:
                pass
        # add_bases after which some space - the edited one, a direct sub or one further down - has no C3 linearisation
        for t in spaces:
            if t is s or t in s.bases:
                continue
            try:
                if s in rm.mro(t) or t in rm.mro(s):
                    continue
            except rm.NoMRO:
                continue
            if mach.lineal_conflict(s, t):
                continue
            s.bases.append(t)
            try:
                broken = None
                for u in spaces:
                    try:
                        rm.mro(u)
                    except rm.NoMRO:
                        broken = u
                        break
            finally:
                s.bases.pop()
            if broken is not None:
                depth = 0 if broken is s else (1 if s in broken.bases else 2)
                out.append({"op": "add_bases", "space": p, "bases": [t.path()], "why": "no-mro-depth%d" % depth})
        # remove_bases / deletion after which a sub space - direct or further down - has no C3 linearisation any more
        for b in list(s.bases):
            i = s.bases.index(b)
            s.bases.remove(b)
            try:
                broken = _first_without_mro(spaces)
            finally:
                s.bases.insert(i, b)
            if broken is not None:
                out.append({"op": "remove_bases", "space": p, "bases": [b.path()], "why": "remove-base-no-mro"})
        tree = set(_tree(s))
        saved = {}
        for u in spaces:
            if u not in tree and any(b in tree for b in u.bases):
                saved[u] = list(u.bases)
                u.bases[:] = [b for b in u.bases if b not in tree]
        try:
            broken = _first_without_mro([u for u in spaces if u not in tree]) if saved else None
        finally:
            for u, bs in saved.items():
                u.bases[:] = bs
        if broken is not None and mach.deletable(s):
            out.append({"op": "del_space", "space": p, "how": "delattr", "why": "del-space-no-mro"})
        # a 'relative' reference to a space outside the tree, while a sub space would have to re-bind it: as a new name and
        # as a change of an existing one
        if isinstance(s.parent, rm.RModel):
            subs = []
            for u in spaces:
                try:
                    if u is not s and s in rm.mro(u)[1:]:
                        subs.append(u)
                except rm.NoMRO:
                    pass
            outside = [z for z in spaces if isinstance(z.parent, rm.RModel) and z is not s]
            if subs and outside:
                z = outside[len(out) % len(outside)]
                used = set(dr) | set(dc) | set(s.spaces)
                for u in subs:
                    used |= set(gen.visible_cells(u)) | set(u.spaces) | set(u.refs)
                if "zr" not in used and "zr" not in m.refs:
                    out.append({"op": "set_ref", "space": p, "name": "zr", "value": {"t": "obj", "space": z.path()}, "mode": "relative",
                                "why": "relref-outside-new"})
                for n in sorted(s.refs):
                    if all(n not in u.refs for u in spaces if u is not s) and all(n not in gen.visible_cells(u) for u in subs):
                        out.append({"op": "set_ref", "space": p, "name": n, "value": {"t": "obj", "space": z.path()}, "mode": "relative",
                                    "why": "relref-outside-change"})
                        break
        # a copy that has to stop half-way: a cells named like a model-level reference cannot be created in a new space
        if "ZC" not in m.spaces and "ZC" not in m.refs:
            names = sorted(n for n, (d, c) in dc.items() if d is s)
            free = [n for n in names[1:] if n not in m.refs and n not in m.spaces]
            if free:
                # (not the first cells: something has been copied by the time the copy stops)
                out.append({"op": "copy_space", "space": p, "name": "ZC", "block": free[-1], "why": "copy-stops-half-way"})
        sibs = [x for x in s.parent.spaces if x != s.name]
        others = sibs + (list(s.parent.refs) if hasattr(s.parent, "refs") else [])
        if others:
            out.append({"op": "rename_space", "space": p, "new": others[len(out) % len(others)], "why": "rename-clash"})
    for n in list(m.spaces):
        out.append({"op": "set_ref", "space": "", "name": n, "value": {"t": "int", "v": 5}, "why": "modelref-vs-space"})
    for n in list(m.refs):
        if n not in ("P", "R"):
            out.append({"op": "new_space", "parent": "", "name": n, "bases": [], "why": "space-vs-modelref"})
    for bad in BAD_NAMES:
        out.append({"op": "new_space", "parent": "", "name": bad, "bases": [], "why": "badname"})
        out.append({"op": "set_ref", "space": "", "name": bad, "value": {"t": "int", "v": 5}, "why": "badname"})
    out.append({"op": "del_ref", "space": "", "name": "nosuch", "why": "del-missing"})
    return out
