"""Persistence simulator shared by C04 (fault-free round trips) and C14 (fault enumeration over fs calls)."""
import os, shutil, zipfile
import modelx as mx
from . import machine, gen, describe, history, fsshim, probe, kernel, refmodel as rm
from .props.base import Violation
from .props import c02

AWKWARD = ["plain doc", "quote ' and \" inside", "back\\slash", "two\nlines", "ends with quote'", "tab\there", "triple ''' inside",
           "unicode éß", "C:\\temp\\new", "ends with dq\"", "has \"\"\" inside", "\\"]


def swarm(rng, faults):
    cfg = c02.swarm(rng)
    cfg.update({"n_spaces": rng.choice([2, 3, 4]), "n_cells": rng.choice([2, 3]), "n_refs": rng.choice([1, 2, 3]),
                "n_hist": rng.choice([0, 5, 12]), "p_objref": rng.choice([0.0, 0.2, 0.35]), "p_mirror": rng.choice([0.0, 0.5]), "p_sformula": rng.choice([0.0, 0.3]),
                "p_uncached": rng.choice([0.0, 0.3]), "recalc": False, "n_saves": rng.choice([2, 3, 4, 5, 6, 7]),
                "zip_first": rng.random() < 0.5, "mix": rng.random() < 0.3, "faults": faults,
                # known findings excluded from the corpus: the mode of literal-valued references and the inputs of
                # derived cells are not written (see known_findings.json); witnesses replay them
                "no_literal_modes": True, "inputs_defined_only": True,
                "same_path": rng.random() < 0.4, "p_edit": rng.choice([0.0, 0.7, 1.0]),
                "enumerate": rng.random() < 0.2, "compression": rng.choice([zipfile.ZIP_DEFLATED, zipfile.ZIP_STORED])})
    # a reference value whose pickling / unpickling fails on command (the pickling operation as point of failure)
    cfg["bomb"] = bool(faults) and not cfg["enumerate"] and rng.random() < 0.4
    cfg["frames"] = rng.random() < 0.4
    return cfg


EDIT_W = {"set_value": 4, "clear": 1.5, "set_ref": 1.5, "new_cells": 1, "del_cells": 1, "set_formula": 1, "new_space": 0.4, "rename_cells": 0.3}

HIST_W = {"eval": 3, "set_ref": 2, "set_formula": 1.5, "new_cells": 1.5, "del_cells": 0.6, "rename_cells": 0.5, "set_cached": 0.7,
          "set_value": 2, "bases": 1, "new_space": 0.7, "rename_space": 0.3, "sformula": 0.5, "clear": 0.3}


class Session:
    def __init__(self, ctx, pid):
        self.ctx = ctx
        self.pid = pid
        self.cfg = ctx.cfg
        self.dir = ctx.tmpdir("fs")
        self.shim = fsshim.Shim(self.dir)
        self.mach = None
        self.events = []

    def ev(self, s):
        self.events.append(s)

    # ---- corpus ----------------------------------------------------------
    def build(self):
        ctx, cfg = self.ctx, self.cfg
        mach = machine.Machine(ctx.seed, cfg)
        self.mach = mach
        rng = mach.rng
        mach.build(cfg["n_spaces"], cfg["n_cells"], cfg["n_refs"])
        for i in range(cfg["n_hist"]):
            mach.do(mach.next_op(HIST_W))
        # decorations the statement names: docs, allow_none at three levels, picklable values, ItemSpace inputs
        extra = []
        m = mach.ref
        extra.append({"op": "set_doc", "space": "", "v": rng.choice(AWKWARD)})
        extra.append({"op": "set_allow_none", "space": "", "v": rng.choice([True, False])})
        for s in list(m.all_spaces()):
            if rng.random() < 0.6:
                extra.append({"op": "set_doc", "space": s.path(), "v": rng.choice(AWKWARD)})
            if rng.random() < 0.3:
                extra.append({"op": "set_allow_none", "space": s.path(), "v": rng.choice([True, False, None])})
            for n, (d, c) in gen.visible_cells(s).items():
                if d is s and rng.random() < 0.25:
                    extra.append({"op": "set_allow_none", "space": s.path(), "name": n, "v": rng.choice([True, False])})
                if d is s and c.formula and c.formula["style"] == "def" and rng.random() < 0.3:
                    extra.append({"op": "set_doc", "space": s.path(), "name": n, "v": rng.choice(AWKWARD[:5])})
            if rng.random() < 0.5:
                v = rng.choice([{"t": "list", "v": [1, 2, 3]}, {"t": "str", "v": rng.choice(AWKWARD)}, {"t": "float", "v": 0.1},
                                {"t": "tuple", "v": [1, 2]}, {"t": "str", "v": "x" * 5}])
                extra.append({"op": "set_ref", "space": s.path(), "name": rng.choice(["s1", "s2"]), "value": v})
        if rng.random() < 0.25:
            # a base space named like an attribute of the Space / Model interface
            nm = rng.choice(["doc", "name", "refs", "path", "cells", "formula", "parent"])
            if nm not in m.spaces and nm not in m.refs and "ZD" not in m.spaces:
                extra.append({"op": "new_space", "parent": "", "name": nm, "bases": []})
                extra.append({"op": "new_space", "parent": "", "name": "ZD", "bases": [nm]})
        if rng.random() < 0.25:
            # an input value None, assigned while None was allowed and kept after it is not
            cands = [(s, n) for s in m.all_spaces() for n, (d, c) in gen.visible_cells(s).items()
                     if d is s and c.formula and c.formula["params"] and c.is_cached]
            if cands:
                s, n = cands[rng.randrange(len(cands))]
                c = gen.visible_cells(s)[n][1]
                args = [rng.randrange(3) for p_, d_ in c.formula["params"]]
                extra.append({"op": "set_allow_none", "space": s.path(), "name": n, "v": True})
                extra.append({"op": "set_value", "space": s.path(), "name": n, "args": args, "value": None, "how": "setitem"})
                extra.append({"op": "set_allow_none", "space": s.path(), "name": n, "v": False})
        if cfg.get("bomb"):
            sps = [""] + [x.path() for x in m.all_spaces()]
            extra.append({"op": "set_ref", "space": rng.choice(sps), "name": "bb", "value": {"t": "bomb", "v": rng.randrange(1, 9)}})
        if cfg.get("frames"):
            # values saved through PandasData specs (files of their own inside the saved model); a failed load must not
            # leave their IOs behind
            sps = [""] + [x.path() for x in m.all_spaces()]
            for i in range(rng.choice([1, 1, 2])):
                ppath = "files/pd%d.csv" % (i + 1)
                extra.append({"op": "set_ref", "space": rng.choice(sps), "name": "pd%d" % (i + 1),
                              "value": {"t": "frame", "v": [rng.randrange(100), 7]}, "pandas_path": ppath})
        for op in extra:
            mach.do(op)
        # a query set, some of it inside ItemSpaces, and ItemSpace inputs
        self.queries = []
        for _ in range(8):
            q = mach.g_eval()
            if q and history.eval_target_exists(mach.ref, q):
                self.queries.append(q)
        ctx.steps = list(mach.steps) + [{"op": "queries", "q": self.queries}]

    def replay_build(self, steps):
        ctx, cfg = self.ctx, self.cfg
        mach = machine.Machine(ctx.seed, cfg)
        self.mach = mach
        self.queries = []
        for op in steps:
            if op["op"] == "queries":
                self.queries = op["q"]
            elif op["op"] in ("save", "load", "restart", "edit", "enum", "c04edit"):
                continue
            else:
                mach.do(op, record=False)
        ctx.steps = list(steps)

    def answers(self, world, ref):
        out = []
        for q in self.queries:
            if history.eval_target_exists(ref, q):
                r = world.apply(q)
                out.append((history.qkey(q), history.short(r)))
        return out

    # ---- saving / loading --------------------------------------------------
    def save(self, m, path, is_zip, plan=None, backup=True):
        self.shim.install()
        pk = bool(plan) and plan.get("kind") == "pickle"
        self.shim.window(None if pk else plan)
        if pk:
            probe.Bomb.ARM["dump"] = 1
            probe.Bomb.FIRED["dump"] = 0
        try:
            try:
                if is_zip:
                    m.zip(path, backup=backup, compression=self.cfg.get("compression", zipfile.ZIP_DEFLATED))
                else:
                    m.write(path, backup=backup)
                return None
            except BaseException as e:
                return e
        finally:
            if pk:
                probe.Bomb.ARM["dump"] = 0
                if probe.Bomb.FIRED["dump"]:
                    self.shim.fired.append((self.shim.nmut, "pickle_dump", "fail"))
            self.nmut_last = self.shim.nmut
            self.fired_last = list(self.shim.fired)
            self.save_fired = list(self.shim.fired)
            self.shim.window(None)
            self.shim.uninstall()
            if self.fired_last:
                self.forgive_cleanup_fault()
            del self.shim.log[:]

    def load(self, path, plan=None, name=None):
        self.shim.install()
        pk = bool(plan) and plan.get("kind") == "unpickle"
        self.shim.window(None if pk else plan)
        if pk:
            probe.Bomb.ARM["load"] = 1
            probe.Bomb.FIRED["load"] = 0
        try:
            if mx.cur_model() is None and mx.get_models():
                mx.cur_model(sorted(mx.get_models())[0])     # (the user is working in one of the open models)
            cur0 = mx.cur_model()
            try:
                kw = {"name": name} if name else {}
                return mx.read_model(path, **kw), None
            except BaseException as e:
                # a failed load leaves the session as it was: the model the user was working in is still the current one
                cur1 = mx.cur_model()
                if cur0 is not None and any(cur0 is x for x in mx.get_models().values()) and cur1 is not cur0:
                    self.lost_current = (cur0.name, getattr(cur1, "name", None))
                return None, e
        finally:
            if pk:
                probe.Bomb.ARM["load"] = 0
                if probe.Bomb.FIRED["load"]:
                    self.shim.fired.append((self.shim.nmut, "pickle_load", "fail"))
            self.fired_last = list(self.shim.fired)
            self.shim.window(None)
            self.shim.uninstall()
            if self.fired_last:
                self.forgive_cleanup_fault()
            del self.shim.log[:]

    def listing(self, root):
        out = []
        if os.path.isdir(root):
            for d, _, files in os.walk(root):
                for f in files:
                    out.append(os.path.relpath(os.path.join(d, f), root).replace(os.sep, "/"))
        elif os.path.isfile(root) and zipfile.is_zipfile(root):
            with zipfile.ZipFile(root) as z:
                out = [n for n in z.namelist() if not n.endswith("/")]
        return sorted(out)

    def tmp_residue(self):
        t = os.path.join(self.dir, "tmp")
        return sorted(os.listdir(t)) if os.path.isdir(t) else []

    def forgive_cleanup_fault(self):
        """A fault that hit the removal of a temporary directory itself legitimately leaves it behind:
        the residue check is not applied to it (the harness removes it)."""
        hit = [l for l in self.shim.log if l[2].startswith("tmp") and l[1] in ("rmdir", "unlink", "rmtree")
               and any(f[0] == l[0] and f[1] == l[1] for f in self.fired_last)]
        if hit:
            t = os.path.join(self.dir, "tmp")
            for n in os.listdir(t):
                shutil.rmtree(os.path.join(t, n), ignore_errors=True)
            return True
        return False


def desc_of(m):
    # live ItemSpaces without inputs are cache, not definitions: they are not part of a saved model
    d = describe.model_desc(m, with_inputs=True, with_items=False)
    return d


# --------------------------------------------------------------------------
# C04

def run_c04(ctx):
    ses = Session(ctx, "C04")
    if ctx.doc is None:
        ses.build()
        rng = ses.mach.rng
        n = rng.choice([1, 2, 3])
        # some chains save to ONE path again and again with edits in between (the archive or directory at a path is
        # replaced by one with other members): what is read is the model as last written, never a mix with what the path
        # held before
        same_path = ses.cfg.get("same_path", False)
        plan = []
        for i in range(n):
            if i and rng.random() < ses.cfg.get("p_edit", 0.0):
                plan.append({"op": "c04edit", "n": rng.choice([1, 2, 4])})
            plan.append({"op": "save", "zip": rng.random() < 0.5, "i": i, "slot": 0 if same_path else i})
        if same_path:
            z = rng.random() < 0.6
            for st in plan:
                if st["op"] == "save":
                    st["zip"] = z
        chain = plan
        generating = True
    else:
        ses.replay_build(ctx.doc["steps"])
        chain = [s for s in ctx.doc["steps"] if s["op"] in ("save", "c04edit")]
        generating = False
    mach = ses.mach
    m = mach.world.m
    world, ref = mach.world, mach.ref
    ctx.events = ses.events
    for st in chain:
        if st["op"] == "c04edit":
            if generating:
                ops = []
                for _ in range(st["n"]):
                    op = mach.next_op(EDIT_W)
                    if op is None:
                        continue
                    mach.do(op, record=False)
                    ops.append(op)
                st = {"op": "c04edit", "ops": ops}
            else:
                for op in st.get("ops", []):
                    mach.do(op, record=False)
            if generating:
                ctx.steps.append(st)
            ses.ev("edit %d ops" % len(st.get("ops", [])))
            ctx.count("edits_between_saves", len(st.get("ops", [])), "reach")
            continue
        if generating:
            ctx.steps.append(st)
        i = st["i"]
        is_zip = st["zip"]
        slot = st.get("slot", i)
        path = os.path.join(ses.dir, "rt%d%s" % (slot, ".zip" if is_zip else ""))
        if slot != i:
            ctx.count("saved_again_to_a_path_already_read", 1, "reach")
        ans0 = ses.answers(world, ref)
        d0 = desc_of(m)
        import hashlib, json as _json
        ses.ev("model %s answers %s" % (hashlib.blake2b(_json.dumps(d0, sort_keys=True, default=repr).encode(), digest_size=8).hexdigest(), ans0))
        err = ses.save(m, path, is_zip)
        ses.ev("save %s zip=%s -> %s" % (i, is_zip, type(err).__name__ if err else "ok"))
        if err is not None:
            raise Violation("C04/write-failed/%s" % type(err).__name__, {"error": repr(err)[:300], "zip": is_zip})
        d1 = desc_of(m)
        df = describe.diff(d0, d1)
        if df:
            raise Violation("C04/writing-altered-the-model/" + c11path(df), {"diff": df})
        if str(m.path) != path:
            raise Violation("C04/path-not-updated", {"path": str(m.path), "want": path})
        # the other container format holds the same files
        other = os.path.join(ses.dir, "rt%d_other%s" % (slot, "" if is_zip else ".zip"))
        err = ses.save(m, other, not is_zip)
        if err is None:
            la, lb = ses.listing(path), ses.listing(other)
            if la != lb:
                raise Violation("C04/zip-and-directory-differ", {"only_first": [x for x in la if x not in lb][:5], "only_second": [x for x in lb if x not in la][:5]})
            ctx.count("listing_compared", 1, "reach")
        # read back
        m2, err = ses.load(path, name="RT%d" % i)
        if err is not None:
            raise Violation("C04/written-model-does-not-load/%s" % type(err).__name__, {"error": repr(err)[:400], "zip": is_zip})
        try:
            d2 = desc_of(m2)
            df = describe.diff(d0, d2)
            if df:
                raise Violation("C04/round-trip-differs/" + c11path(df) + feature(d0, df, d2), {"diff": df, "zip": is_zip})
            w2 = machine.World.__new__(machine.World)
            w2.m, w2.name, w2.handles = m2, m2.name, {}
            ans2 = ses.answers(w2, ref)
            if ans2 != ans0:
                bad = [(a, b) for a, b in zip(ans0, ans2) if a != b][:3]
                raise Violation("C04/values-differ-after-round-trip", {"pairs": bad, "zip": is_zip})
            ctx.count("round_trips", 1, "reach")
            ctx.count("zip" if is_zip else "dir", 1, "formats")
            ctx.nontrivial = True
        finally:
            # continue the chain from the loaded model: write-read-write
            pass
        m.close()
        mach.world.m = m2
        mach.world.name = m2.name
        m = m2
    ctx.nsteps = len(chain)


def feature(desc, df, other=None):
    """Narrow the signature of a round-trip difference by what kind of member it concerns."""
    tag = _feature(desc, df)
    if tag == "/object-value" and other is not None and _feature(other, df) == "/derived-auto-reference-bound-to-own-child-space":
        # (the same thing seen from the model that was read: re-derived from scratch it binds to the child space)
        return "/derived-auto-reference-bound-to-own-child-space"
    return tag


def _feature(desc, df):
    path = df.split(":")[0].strip(".").split(".")
    node = desc
    trail = []
    try:
        for seg in path:
            if isinstance(node, dict) and seg in node:
                trail.append(node)
                node = node[seg]
            else:
                break
    except Exception:
        return ""
    for n in reversed(trail):
        if isinstance(n, dict) and "derived" in n and "src" in n:
            return "/derived-cells" if n["derived"] else "/defined-cells"
        if isinstance(n, dict) and "mode" in n and "value" in n:
            v = n["value"]
            if isinstance(v, str) and v.startswith("<"):
                # the space that holds the reference: names after each "spaces" segment
                owner = ".".join(path[i + 1] for i in range(len(path) - 1) if path[i] == "spaces")
                if (n.get("derived") and n.get("mode") == "auto" and v.startswith("<UserSpace ")
                        and v[len("<UserSpace "):-1].startswith(owner + ".")):
                    # a DERIVED auto reference that the live model has bound to a child space of the deriving space
                    return "/derived-auto-reference-bound-to-own-child-space"
                return "/object-value"
            return "/literal-value"
    return ""


def c11path(d):
    import re
    p = d.split(":")[0]
    p = re.sub(r"\.(spaces|cells|refs|inputs|items)\.[^.:\[]+", r".\1.*", p)
    return p


# --------------------------------------------------------------------------
# C14

KINDS = [("fail", "ENOSPC"), ("fail", "EIO"), ("fail", "EACCES"), ("torn", "ENOSPC"), ("close", "EIO"), ("exdev", "EXDEV")]


def gen_of(path, ses):
    """Generation marker of a loadable copy at path, or None."""
    if not os.path.exists(path):
        return None
    m, err = ses.load(path, name="PROBE")
    if err is not None:
        return ("unloadable", type(err).__name__)
    try:
        return ("gen", m.refs["gen"], desc_of(m))
    except Exception as e:
        return ("unloadable", type(e).__name__)
    finally:
        try:
            m.close()
        except Exception:
            pass


def run_c14(ctx):
    ses = Session(ctx, "C14")
    if ctx.doc is None:
        ses.build()
        rng = ses.mach.frng
        cfg = ctx.cfg
        plan_steps = []
        is_zip = cfg["zip_first"]
        nm_guess = 160 if is_zip else 20
        if cfg["enumerate"]:
            for _ in range(rng.choice([1, 2, 4, 5])):
                plan_steps.append({"op": "save", "zip": is_zip, "plan": None})
                plan_steps.append({"op": "edit"})
            nk = 2 if (ctx.tier == "thorough" or not is_zip) else 1
            plan_steps.append({"op": "enum", "zip": is_zip, "kinds": [list(k) for k in rng.sample(KINDS, nk)]})
        else:
            for i in range(cfg["n_saves"]):
                if cfg["mix"] and rng.random() < 0.4:
                    is_zip = not is_zip
                plan = None
                if i > 0 and rng.random() < 0.6:
                    kind, en = rng.choice(KINDS)
                    plan = {"at": rng.randrange(0, 160 if is_zip else 20), "kind": kind, "errno": en}
                    q = rng.random()
                    if q < 0.5:
                        # a position relative to the length of the last complete save of this format (resolved at run time),
                        # so that the tail of a save - removal of the set-aside copy, final renames - is reached as well
                        plan = {"at_frac": round(rng.uniform(0.0, 1.05) if q < 0.35 else rng.uniform(0.8, 1.05), 3), "kind": kind, "errno": en}
                    if rng.random() < 0.1:
                        plan = {"at": rng.randrange(0, 40), "kind": "transient", "n": rng.choice([1, 2, 3])}
                    if cfg.get("bomb") and rng.random() < 0.35:
                        plan = {"kind": "pickle"}
                plan_steps.append({"op": "save", "zip": is_zip, "plan": plan})
                if rng.random() < 0.7:
                    plan_steps.append({"op": "edit"})
                if rng.random() < 0.25:
                    lp = None
                    if rng.random() < 0.6:
                        lp = {"at": rng.randrange(0, 30), "kind": "fail", "errno": "EIO", "on": "read"}
                        if cfg.get("bomb") and rng.random() < 0.5:
                            lp = {"kind": "unpickle"}
                    plan_steps.append({"op": "load", "plan": lp})
                if rng.random() < 0.15:
                    plan_steps.append({"op": "restart"})
        ctx.steps += plan_steps
    else:
        ses.replay_build(ctx.doc["steps"])
        plan_steps = [s for s in ctx.doc["steps"] if s["op"] in ("save", "load", "restart", "edit", "enum")]
    run_c14_steps(ctx, ses, plan_steps)


def run_c14_steps(ctx, ses, plan_steps):
    mach = ses.mach
    world = mach.world
    ctx.events = ses.events
    path_dir = os.path.join(ses.dir, "model")
    state = {"gen": 0, "good": [], "m": world.m}     # good: list of (gen, desc) of complete saves, newest first

    def mark(m):
        state["gen"] += 1
        m.gen = state["gen"]

    def check_after(what, failed):
        ctx.count("attempts_checked", 1, "reach")
        path = state["path"]
        copies = []
        for suffix in ("", "_BAK1", "_BAK2", "_BAK3"):
            copies.append(gen_of(path + suffix, ses))
        ses.ev("%s copies=%s" % (what, [(c[0], c[1]) if c else None for c in copies]))
        # (c) a zip destination never holds a partial archive
        if os.path.isfile(path) and copies[0] is not None and copies[0][0] == "unloadable":
            raise Violation("C14/partial-archive-at-destination/" + what, {"copies": [c[:2] if c else None for c in copies]})
        if state["good"]:
            g, d = state["good"][0]
            ok = False
            for c in copies[:2]:
                if c and c[0] == "gen" and c[1] == g:
                    ok = True
                    df = describe.diff(strip_gen(d), strip_gen(c[2]))
                    if df:
                        raise Violation("C14/last-good-copy-altered/" + what, {"diff": df})
            if not ok:
                where = [i for i, c in enumerate(copies) if c and c[0] == "gen" and c[1] == g]
                raise Violation("C14/last-good-save-not-at-path-or-first-backup/%s/%s" % (what, "found-at-BAK%d" % where[0] if where else "lost"),
                                {"latest_complete_generation": g, "copies": [c[:2] if c else None for c in copies]})
        gens = [c[1] for c in copies if c and c[0] == "gen"]
        slots = [(c[1] if c and c[0] == "gen" else (None if c is None else "unloadable")) for c in copies]
        hit_rollback = len(getattr(ses, "save_fired", [])) > 1
        sb = state.get("slots_before")
        if sb is not None and any(sb[i] is None and any(x is not None for x in sb[i + 1:]) for i in range(len(sb))):
            # an earlier doubly-faulted save left a free slot between generations: a later rotation or restore may
            # legitimately close it (same generations, same order)
            hit_rollback = True
        if not failed:
            state["aside_gen"] = None       # (a completed save removes a copy left set aside)
        elif state.get("aside_gen") is not None:
            # an earlier failing roll-back left the oldest copy set aside: this roll-back may put it back into the free slot
            hit_rollback = True
        if failed and state.get("slots_before") is not None and hit_rollback:
            # the fault fired again after the save had already failed (a transient error that outlasts the first
            # failure also hits the moving-back): the statement only demands that nothing is lost and order is kept
            ctx.count("fault_also_hit_rollback", 1, "reach")
            have = [x for x in slots if x is not None]
            had = [x for x in state["slots_before"] if x is not None]
            aside = os.path.exists(os.path.join(ses.dir, "model_BAK_OLD"))
            back = state.get("aside_gen") is not None and have == had + [state["aside_gen"]]
            if back:
                state["aside_gen"] = None
                ctx.count("set_aside_copy_moved_back_by_a_later_rollback", 1, "reach")
            elif have != had and not (aside and have == had[:-1]):
                # (when the error outlasts the moving-back of the set-aside oldest copy, that copy stays where it was set
                # aside - still on disk, the others in order: all a rollback that is itself failing can do)
                raise Violation("C14/failed-save-lost-a-kept-generation/" + what, {"before": state["slots_before"], "after": slots})
            elif have != had:
                ctx.count("oldest_copy_left_set_aside_by_a_failing_rollback", 1, "reach")
                state["aside_gen"] = had[-1]
        elif failed and state.get("slots_before") is not None and slots != state["slots_before"]:
            # a failed save leaves no residue: the same generations in the same slots as before the attempt
            raise Violation("C14/failed-save-changed-the-kept-generations/" + what, {"before": state["slots_before"], "after": slots})
        stray = sorted(n for n in os.listdir(ses.dir) if n.startswith("model") and n not in ("model", "model_BAK1", "model_BAK2", "model_BAK3"))
        if stray and not (stray == ["model_BAK_OLD"] and (any(f[1] in ("unlink", "rmdir", "rmtree") for f in getattr(ses, "save_fired", []))
                                                        or (failed and hit_rollback))):
            # (a fault that hits the removal of the set-aside oldest copy legitimately leaves it until the next save)
            raise Violation("C14/stray-files-next-to-the-model/" + what, {"stray": stray})
        state["slots_now"] = slots
        if gens != sorted(gens, reverse=True):
            raise Violation("C14/backup-generations-out-of-order/" + what, {"generations": gens})
        if not failed:
            want = [g for g, d in state["good"][:4]]
            if gens != want[:len(gens)] or len(gens) < min(len(want), 4):
                raise Violation("C14/backups-not-the-previous-generations/" + what, {"have": gens, "want": want})
        res = ses.tmp_residue()
        if res:
            raise Violation("C14/temporary-files-left-behind/" + what, {"left": res[:5]})
        if mx.core.mxsys.serializing is not None or mx.core.mxsys.iomanager.serializing:
            raise Violation("C14/serializing-flag-left-set/" + what, {})
        io_residue(what)

    models0 = None
    for st in plan_steps:
        k = st["op"]
        m = state["m"]
        if k == "edit":
            # a small visible edit between saves
            op = mach.g_set_ref(mach.ref)
            if op:
                mach.do(op, record=False)
            continue
        if k == "save":
            is_zip = st["zip"]
            state["path"] = path_dir + (".zip" if st.get("zippath") else "")
            state["path"] = path_dir
            mark(m)
            d = desc_of(m)
            models0 = sorted(mx.get_models())
            state["slots_before"] = state.get("slots_now")
            plan = st.get("plan")
            if plan and "at_frac" in plan:
                nref = state.setdefault("nmut_ok", {}).get(bool(is_zip)) or (160 if is_zip else 20)
                plan = dict(plan, at=int(plan["at_frac"] * nref))
            err = ses.save(m, state["path"], is_zip, plan=plan)
            if err is None and not ses.fired_last:
                state.setdefault("nmut_ok", {})[bool(is_zip)] = ses.nmut_last
            fired = ses.fired_last
            for f in fired:
                ctx.count(f[2] + ":" + f[1], 1, "faults_fired")
            if st.get("plan") and not fired:
                ctx.count("armed_not_reached", 1, "faults")
            ses.ev("save gen=%d zip=%s plan=%s -> %s fired=%s" % (state["gen"], is_zip, plan, type(err).__name__ if err else "ok", fired))
            if err is None:
                state["good"].insert(0, (state["gen"], d))
                if fired and st["plan"]["kind"] == "transient":
                    ctx.count("transient_survived", 1, "reach")
            else:
                ctx.nontrivial = ctx.nontrivial or bool(fired)
                if not fired and not isinstance(err, Exception):
                    raise err
                if not fired:
                    raise Violation("C14/save-failed-without-fault/%s" % type(err).__name__, {"error": repr(err)[:300]})
                ctx.count("failed_saves", 1, "reach")
            if sorted(mx.get_models()) != models0:
                raise Violation("C14/registry-changed-by-save", {"before": models0, "after": sorted(mx.get_models())})
            check_after("save-failed" if err else "save-ok", err is not None)
            if err is not None:
                usable(ctx, ses, m)
            continue
        if k == "enum":
            enumerate_save(ctx, ses, state, st, mark, check_after)
            continue
        if k == "load":
            if not state["good"]:
                continue
            models0 = sorted(mx.get_models())
            plan = st.get("plan")
            m2, err = ses.load(state["path"], plan=None if not plan else plan, name="LD")
            # read faults: the shim numbers mutating calls only; a load plan is applied through corruption instead
            if plan and plan.get("kind") == "unpickle":
                for f in ses.fired_last:
                    ctx.count(f[2] + ":" + f[1], 1, "faults_fired")
                if err is not None:
                    ctx.count("failed_loads", 1, "reach")
                    ctx.nontrivial = True
            elif plan and err is None:
                m2.close()
                bad = corrupt(ses, state["path"], plan["at"])
                m2, err = ses.load(state["path"], name="LD")
                restore(ses, state["path"], bad)
                if err is not None:
                    ctx.count("failed_loads", 1, "reach")
                    ctx.nontrivial = True
            ses.ev("load plan=%s -> %s" % (plan, type(err).__name__ if err else "ok"))
            if err is not None:
                if sorted(mx.get_models()) != models0:
                    raise Violation("C14/half-loaded-model-left-registered", {"before": models0, "after": sorted(mx.get_models())})
                if mx.core.mxsys.serializing is not None:
                    raise Violation("C14/serializing-flag-left-set/load-failed", {})
                lost = getattr(ses, "lost_current", None)
                ses.lost_current = None
                if lost is not None:
                    raise Violation("C14/failed-load-changed-the-current-model", {"before": lost[0], "after": lost[1]})
                ctx.count("current_model_checked_after_failed_load", 1, "reach")
                io_residue("load-failed")
                usable(ctx, ses, m)
            else:
                m2.close()
            continue
        if k == "restart":
            if not state["good"]:
                continue
            # simulated process restart: the session is discarded, only the disk survives
            g, d = state["good"][0]
            for name, mm in list(mx.get_models().items()):
                mm.close()
            m2, err = ses.load(state["path"], name="M")
            if err is not None:
                m2, err = ses.load(state["path"] + "_BAK1", name="M")
            if err is not None:
                raise Violation("C14/nothing-loadable-after-restart", {"error": repr(err)[:200]})
            state["m"] = m2
            mach.world.m = m2
            ctx.count("restarts", 1, "reach")
            continue
    ctx.nsteps = len(plan_steps)


def io_residue(what):
    """No IO of a model that is not open (any more) stays in the session-wide IO manager."""
    ios = getattr(getattr(mx.core.mxsys, "iomanager", None), "ios", None)
    if not isinstance(ios, dict):
        return
    open_models = list(mx.get_models().values())
    for key in list(ios):
        grp = key[0] if isinstance(key, tuple) and key else None
        if grp is not None and not any(grp is m for m in open_models):
            raise Violation("C14/io-of-a-closed-model-left-registered/" + what, {"model": getattr(grp, "name", "?"), "path": str(key[1])})
        if grp is None:
            # a file at an absolute path belongs to no model in particular: one of the open models has to hold a spec of it
            specs = getattr(ios[key], "specs", None)
            if specs is None:
                continue
            held = [s for m in open_models for s in m.iospecs]
            if not any(any(s is h for h in held) for s in specs):
                raise Violation("C14/io-of-no-open-model-left-registered/" + what, {"path": str(key[1])})


def strip_gen(d):
    d = dict(d)
    refs = dict(d.get("refs", {}))
    refs.pop("gen", None)
    d["refs"] = refs
    return d


def usable(ctx, ses, m):
    """After a failed save or load the session is usable: a save to a fresh path and a load round-trip."""
    p = os.path.join(ses.dir, "fresh%d" % ctx.stats.get("fresh", 0))
    ctx.count("fresh")
    d0 = desc_of(m)
    err = ses.save(m, p, False)
    if err is not None:
        raise Violation("C14/session-unusable-after-failure/save/%s" % type(err).__name__, {"error": repr(err)[:300]})
    m2, err = ses.load(p, name="FR")
    if err is not None:
        raise Violation("C14/session-unusable-after-failure/load/%s" % type(err).__name__, {"error": repr(err)[:300]})
    try:
        df = describe.diff(d0, desc_of(m2))
        if df:
            raise Violation("C14/round-trip-differs-after-failure/" + c11path(df), {"diff": df})
    finally:
        m2.close()
    shutil.rmtree(p, ignore_errors=True)
    ctx.count("usable_checks", 1, "reach")


def corrupt(ses, path, k):
    """Corrupt-at-rest: truncate the k-th file (or the archive) to half; returns what is needed to restore."""
    if os.path.isfile(path):
        data = open(path, "rb").read()
        open(path, "wb").write(data[: max(1, (len(data) * (k % 7 + 1)) // 9)])
        return ("file", path, data)
    files = []
    for d, _, fs in os.walk(path):
        for f in sorted(fs):
            files.append(os.path.join(d, f))
    files.sort()
    if not files:
        return None
    f = files[k % len(files)]
    data = open(f, "rb").read()
    open(f, "wb").write(data[: len(data) // 2])
    return ("file", f, data)


def restore(ses, path, bad):
    if bad:
        open(bad[1], "wb").write(bad[2])


def enumerate_save(ctx, ses, state, st, mark, check_after):
    """Every mutating fs call of one save as the failure point, each from the same on-disk starting state."""
    m = state["m"]
    is_zip = st["zip"]
    snap = os.path.join(os.path.dirname(ses.dir), os.path.basename(ses.dir) + "-snap")
    shutil.rmtree(snap, ignore_errors=True)
    shutil.copytree(ses.dir, snap)
    good0 = list(state["good"])
    gen0 = state["gen"]
    slots0 = state.get("slots_now")
    # fault-free pass to learn the number of mutating calls
    mark(m)
    err = ses.save(m, state["path"], is_zip)
    n = ses.nmut_last
    if err is not None:
        raise Violation("C14/save-failed-without-fault/%s" % type(err).__name__, {"error": repr(err)[:300]})
    ctx.count("mutating_calls_in_enumerated_save", n, "reach")
    try:
        ks = list(range(n))
        full = True
        if ctx.tier == "quick" and n > 70:
            # the quick tier takes a seeded subset of the points of a long save (always including its first and last
            # ten); the thorough tier takes every point
            import random as _r
            rr = _r.Random(kernel.h64(ctx.seed, "enum-subset"))
            mid = list(range(10, n - 10))
            ks = sorted(set(range(10)) | set(range(n - 10, n)) | set(rr.sample(mid, 50)))
            full = False
        for kind, en in st["kinds"]:
            for k in ks:
                shutil.rmtree(ses.dir, ignore_errors=True)
                shutil.copytree(snap, ses.dir)
                state["good"] = list(good0)
                state["gen"] = gen0
                state["slots_before"] = slots0
                mark(m)
                d = desc_of(m)
                plan = {"at": k, "kind": kind, "errno": en}
                err = ses.save(m, state["path"], is_zip, plan=plan)
                fired = ses.fired_last
                for f in fired:
                    ctx.count(f[2] + ":" + f[1], 1, "faults_fired")
                ses.ev("enum k=%d %s -> %s" % (k, kind, type(err).__name__ if err else "ok"))
                if err is None:
                    state["good"].insert(0, (state["gen"], d))
                else:
                    ctx.nontrivial = True
                    ctx.count("failed_saves", 1, "reach")
                try:
                    check_after("save-failed" if err else "save-ok", err is not None)
                except Violation as v:
                    if isinstance(v.detail, dict):
                        v.detail.update({"k": k, "kind": kind, "fired": fired, "error": repr(err)[:200], "calls": []})
                    raise
                ctx.count("enumerated_points", 1, "reach")
                if fired and (err is None or k % 3 == 0):
                    # later saves behave normally: one more, fault-free, save to the same path from the state the fault left
                    mark(m)
                    d2 = desc_of(m)
                    state["slots_before"] = state.get("slots_now")
                    err2 = ses.save(m, state["path"], is_zip)
                    ses.ev("enum k=%d follow-up save -> %s" % (k, type(err2).__name__ if err2 else "ok"))
                    if err2 is not None:
                        raise Violation("C14/later-save-fails-after-a-fault/%s" % type(err2).__name__,
                                        {"k": k, "kind": kind, "first": repr(err)[:200], "error": repr(err2)[:300]})
                    state["good"].insert(0, (state["gen"], d2))
                    check_after("save-ok-after-fault", False)
                    ctx.count("follow_up_saves", 1, "reach")
        if full:
            ctx.stats["exhaustive_saves"] = ctx.stats.get("exhaustive_saves", 0) + 1
        else:
            ctx.stats["subsampled_saves"] = ctx.stats.get("subsampled_saves", 0) + 1
    finally:
        shutil.rmtree(snap, ignore_errors=True)
