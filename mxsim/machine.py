"""The history machine: one session (a real modelx World + the RefModel mirror), driven step by step.

A step is one public-API call issued by one logical actor.  Operations name their targets symbolically
and check their own preconditions against the RefModel; if a target no longer exists the step is a
recorded no-op, which is what lets the minimiser delete steps.
"""
import random
from . import refmodel as rm, refops, gen, probe, kernel
from .world import World, norm


def substream(seed, label):
    return random.Random(kernel.h64(seed, label))


class Machine:
    def __init__(self, seed, cfg, name="M"):
        self.seed = seed
        self.cfg = cfg
        self.rng = substream(seed, "gen")
        self.sched = substream(seed, "sched")
        self.frng = substream(seed, "faults")
        self.world = World(name)
        self.ref = rm.RModel(self.world.name)
        self.ref.refs["P"] = rm.RRef("P", ("probe", "P"), None)
        self.ref.refs["R"] = rm.RRef("R", ("probe", "R"), None)
        self.fresh = gen.Fresh()
        self.events = []
        self.steps = []
        self.edits = []
        self.stats = {"ops": {}, "rejected": {}, "skipped": 0}
        self.pool = cfg.get("pool", gen.CELLS)

    # ---- stepping --------------------------------------------------------
    def do(self, op, record=True):
        k = op["op"]
        if not refops.precond(self.ref, op):
            self.stats["skipped"] += 1
            if record:
                self.steps.append(op)
            self.events.append("skip " + k)
            return {"st": "skip"}
        if k in ("set_value", "clear_at") and "key" not in op and "args" in op:
            c = gen.visible_cells(refops.sp(self.ref, op["space"])).get(op["name"])
            if c and c[1].formula:
                op = dict(op, key=gen.bound_key(c[1].formula["params"], op["args"]))
        out = self.world.apply(op)
        self.stats["ops"][k] = self.stats["ops"].get(k, 0) + 1
        if out["st"] == "rej" and k == "set_value" and out.get("wrapped") and self.assigned(op):
            # with the recalculation option on, the recomputation of a dependent failed: the error comes out of the assignment,
            # but the assignment itself has been made (the value is an input) - an accepted edit whose follow-up work failed
            out = dict(out, st="ok", val=None, recalculation_failed=out.get("exc"))
            self.stats["recalc_failed_after_assignment"] = self.stats.get("recalc_failed_after_assignment", 0) + 1
        if out["st"] == "ok":
            if k in gen.EDIT_OPS:
                refops.apply(self.ref, op)
                self.edits.append(op)
            elif k in gen.EDIT_OPS_CLEAR:
                refops.apply(self.ref, op)
                self.edits.append(op)
        else:
            self.stats["rejected"][k] = self.stats["rejected"].get(k, 0) + 1
        if record:
            self.steps.append(op)
        self.events.append("%s %s %s" % (k, out["st"], out.get("exc") or out.get("val")))
        return out

    def assigned(self, op):
        """Is the value of a set_value operation in place as an input?"""
        import modelx as mx
        if not mx.get_recalc():
            return False
        try:
            c = self.world.space(op["space"]).cells[op["name"]]
            args = tuple(op.get("key", op["args"]))
            return bool(c.is_input(*args)) and c(*args) == op["value"]
        except Exception:
            return False

    # ---- generation helpers ----------------------------------------------
    def used_names(self, space):
        if isinstance(space, rm.RModel):
            return set(space.spaces) | set(space.refs)
        names = set(gen.visible_cells(space)) | set(space.spaces)
        try:
            names |= set(rm.derived_refs(space))
        except rm.NoMRO:
            pass
        return names

    def lineal_conflict(self, s, t):
        """Would making t a base of s let some space inherit, directly or through other spaces, from one of
        its own ancestors or descendants in the containment tree?"""
        try:
            ups = rm.mro(t)
        except rm.NoMRO:
            return True
        downs = [s] + [x for x in rm.subs_of(self.ref, s)] if s.name in getattr(s.parent, "spaces", {}) and s.parent.spaces[s.name] is s else [s]
        for x in ups:
            for y in downs:
                if x is y or x.is_in(y) or y.is_in(x):
                    return True
        return False

    def g_new_space(self):
        m = self.ref
        rng = self.rng
        parents = [m] + [s for s in m.all_spaces() if s.depth() < self.cfg.get("max_depth", 2)]
        parent = rng.choice(parents)
        pool = self.cfg.get("tops", gen.TOPS) if parent is m else self.cfg.get("children", gen.CHILDREN)      # the same pool at every depth: A.U.V and A.V.V can coexist
        if self.cfg.get("clash"):
            pool = self.cfg["clash_pool"]
        free = [n for n in pool if n not in self.used_names(parent)] if not self.cfg.get("clash") else list(pool)
        if not free:
            return None
        name = rng.choice(free)
        bases = []
        if rng.random() < self.cfg.get("p_bases", 0.5):
            cands = [s for s in m.all_spaces() if s is not parent and not (isinstance(parent, rm.RSpace) and parent.is_in(s))]
            if not self.cfg.get("lineal_bases"):
                # no inheritance between a space and its own ancestors or descendants (see DESIGN limits)
                tmp = rm.RSpace(name, parent)
                cands = [s for s in cands if not self.lineal_conflict(tmp, s)]
            rng.shuffle(cands)
            bases = [s.path() for s in cands[:rng.choice([1, 1, 2])]]
        op = {"op": "new_space", "parent": parent.path(), "name": name, "bases": bases}
        if rng.random() < self.cfg.get("p_sformula", 0.25):
            tmp = rm.RSpace(name, parent)
            op["formula"] = gen.gen_space_formula(rng, m, tmp, self.cfg)
        if self.cfg.get("p_space_refs") and rng.random() < self.cfg["p_space_refs"]:
            # references handed to the creation itself (new_space(refs=...))
            pool = self.cfg["clash_pool"] if self.cfg.get("clash") else gen.REFS
            op["refs"] = {rng.choice(pool): self.fresh.next()}
        return op

    def g_new_cells(self, space=None):
        rng = self.rng
        s = space or gen.pick_space(rng, self.ref)
        if s is None:
            return None
        if self.cfg.get("clash"):
            name = rng.choice(self.cfg["clash_pool"])
        else:
            name = gen.free_cells_name(rng, s, self.pool)
        if name is None:
            return None
        f = gen.gen_formula(rng, self.ref, s, name, self.cfg, pool=self.pool)
        op = {"op": "new_cells", "space": s.path(), "name": name, "formula": f,
              "is_cached": rng.random() >= self.cfg.get("p_uncached", 0.2)}
        if self.cfg.get("p_autoname") and f.get("style") == "def" and rng.random() < self.cfg["p_autoname"]:
            op["autoname"] = True      # created without an explicit name: named after its def formula
        return op

    def pick_cells(self, defined_only=False):
        rng = self.rng
        cands = []
        for s in self.ref.all_spaces():
            for n, (d, c) in gen.visible_cells(s).items():
                if not defined_only or d is s:
                    cands.append((s, n, d, c))
        return rng.choice(cands) if cands else None

    def g_set_formula(self):
        pc = self.pick_cells()
        if not pc:
            return None
        s, n, d, c = pc
        keep = c.formula["params"] if (c.formula and self.rng.random() < 0.8) else None
        f = gen.gen_formula(self.rng, self.ref, s, n, self.cfg, params=keep, pool=self.pool)
        return {"op": "set_formula", "space": s.path(), "name": n, "formula": f}

    def g_del_cells(self):
        pc = self.pick_cells(defined_only=self.rng.random() < 0.8)
        if not pc:
            return None
        s, n, d, c = pc
        if not self.deletable(c) or not self.deletable(s) and d is not s:
            return None
        return {"op": "del_cells", "space": s.path(), "name": n, "how": self.rng.choice(["delattr", "delitem"])}

    def g_rename_cells(self):
        pc = self.pick_cells(defined_only=self.rng.random() < 0.8)
        if not pc:
            return None
        s, n, d, c = pc
        if self.cfg.get("clash"):
            new = self.rng.choice(self.cfg["clash_pool"])
        else:
            new = gen.free_cells_name(self.rng, s, self.pool, higher_than=n)
            # the new name must be free in every sub too, else ranks could be violated there
        if new is None:
            return None
        if not self.cfg.get("rename_multibase"):
            # renaming a cells whose name reaches a sub through another base as well is C03 territory
            for t in rm.subs_of(self.ref, s):
                dc = gen.visible_cells(t)
                if new in dc or (n in dc and dc[n][0] not in (s, t)):
                    return None
                if any(n in b.cells for b in rm.mro(t)[1:] if b is not s):
                    return None
        return {"op": "rename_cells", "space": s.path(), "name": n, "new": new}

    def g_set_cached(self):
        pc = self.pick_cells()
        if not pc:
            return None
        s, n, d, c = pc
        return {"op": "set_cached", "space": s.path(), "name": n, "v": not c.is_cached}

    def g_set_ref(self, where=None):
        rng = self.rng
        m = self.ref
        if where is None:
            where = m if rng.random() < self.cfg.get("p_modelref", 0.3) else gen.pick_space(rng, m)
        if where is None:
            where = m
        pool = self.cfg["clash_pool"] if self.cfg.get("clash") else gen.REFS
        name = rng.choice(pool)
        v = gen.gen_value(rng, self.fresh, m, self.cfg, where if isinstance(where, rm.RSpace) else None)
        if self.cfg.get("split_ref_names"):
            # a name is either always object-valued or never (an int turned into a scalar cells would be coerced by
            # arithmetic in formulas written for the int: outside the export subset)
            name = rng.choice(["q", "n"] if v["t"] == "obj" else ["k", "m"])
        op = {"op": "set_ref", "space": where.path(), "name": name, "value": v}
        if isinstance(where, rm.RSpace) and (v["t"] == "obj" or (rng.random() < 0.3 and not self.cfg.get("no_literal_modes"))):
            op["mode"] = rng.choice(["auto", "absolute", "relative"]) if v["t"] == "obj" else rng.choice(["auto", "absolute"])
            if op["mode"] == "relative" and not self.cfg.get("relative_outside"):
                # a relative reference to a target outside the definer's tree is accepted by modelx and makes
                # later re-derivations raise half-way (C10/C11 territory): only generated on request
                t = m.space(v.get("space") or "")
                if not (isinstance(t, rm.RSpace) and t is where):
                    op["mode"] = "auto"
            if self.cfg.get("objref_modes") and v["t"] == "obj":
                op["mode"] = rng.choice(self.cfg["objref_modes"])
        return op

    def g_del_ref(self):
        rng = self.rng
        m = self.ref
        cands = [(m, n) for n in m.refs if n not in ("P", "R")]
        for s in m.all_spaces():
            for n in s.refs:
                cands.append((s, n))
            if rng.random() < 0.1:
                try:
                    for n in rm.derived_refs(s):
                        cands.append((s, n))
                except rm.NoMRO:
                    pass
        if not cands:
            return None
        w, n = rng.choice(cands)
        return {"op": "del_ref", "space": w.path(), "name": n}

    def mentioned_via_model(self):
        """Names X such that some formula reaches a space by the attribute path _model.X (an untracked
        dependency in modelx: known finding, excluded from the random search unless cfg says otherwise)."""
        names = set()

        def walk(e):
            if isinstance(e, list):
                if len(e) >= 3 and e[0] in ("a", "call") and isinstance(e[1], list) and len(e[1]) >= 2 and e[1][0] == "_model" \
                        and isinstance(e[1][1], str):
                    names.add(e[1][1])
                for x in e:
                    walk(x)
            elif isinstance(e, dict):
                for x in e.values():
                    walk(x)
        for s in self.ref.all_spaces():
            for c in s.cells.values():
                if c.formula:
                    walk(c.formula.get("ret"))
                    walk(c.formula.get("lets"))
        return names

    def objref_targets(self):
        """Spaces and cells that some object-valued reference points at."""
        out = set()
        holders = [self.ref] + list(self.ref.all_spaces())
        for h in holders:
            for r in h.refs.values():
                v = r.value
                if isinstance(v, (rm.RSpace, rm.RCells)):
                    out.add(id(v))
                elif isinstance(v, tuple) and v and v[0] == "cells-of":
                    out.add(id(v[1]))
        return out

    def deletable(self, obj):
        """Deleting the target of an object-valued reference leaves a dangling reference whose behaviour inside
        formulas depends on when their namespace was last rebuilt (known finding): excluded unless requested."""
        if self.cfg.get("dangling_objrefs"):
            return True
        t = self.objref_targets()
        if isinstance(obj, rm.RSpace):
            for s in obj.walk():
                if id(s) in t or any(id(c) in t for c in s.cells.values()):
                    return False
            return True
        return id(obj) not in t

    def space_editable(self, s):
        if self.cfg.get("untracked_space_paths"):
            return True
        top = s
        while isinstance(top.parent, rm.RSpace):
            top = top.parent
        return top.name not in self.mentioned_via_model()

    def g_del_space(self):
        s = gen.pick_space(self.rng, self.ref)
        if not s or not self.space_editable(s) or not self.deletable(s):
            return None
        return {"op": "del_space", "space": s.path(), "how": self.rng.choice(["delattr", "delitem"])}

    def g_rename_space(self):
        s = gen.pick_space(self.rng, self.ref)
        if not s or not self.space_editable(s):
            return None
        pool = self.cfg.get("tops", gen.TOPS) if isinstance(s.parent, rm.RModel) else self.cfg.get("children", gen.CHILDREN)
        if self.cfg.get("clash"):
            pool = self.cfg["clash_pool"]
        free = [n for n in pool if n not in self.used_names(s.parent)] or list(pool)
        return {"op": "rename_space", "space": s.path(), "new": self.rng.choice(free)}

    def g_bases(self, add=None):
        rng = self.rng
        s = gen.pick_space(rng, self.ref)
        if not s:
            return None
        if add is None:
            add = rng.random() < 0.6 or not s.bases
        if add:
            cands = [t for t in self.ref.all_spaces() if t is not s and t not in s.bases]
            if not self.cfg.get("lineal_bases"):
                cands = [t for t in cands if not self.lineal_conflict(s, t)]
            if not cands:
                return None
            rng.shuffle(cands)
            return {"op": "add_bases", "space": s.path(), "bases": [t.path() for t in cands[:rng.choice([1, 1, 2])]]}
        if not s.bases:
            return None
        return {"op": "remove_bases", "space": s.path(), "bases": [rng.choice(s.bases).path()]}

    def g_sformula(self):
        s = gen.pick_space(self.rng, self.ref)
        if not s:
            return None
        if s.formula is not None and self.rng.random() < 0.4:
            return {"op": "del_sformula", "space": s.path()}
        return {"op": "set_sformula", "space": s.path(), "formula": gen.gen_space_formula(self.rng, self.ref, s, self.cfg)}

    def g_set_value(self):
        pc = self.pick_cells(defined_only=bool(self.cfg.get("inputs_defined_only")))
        if not pc:
            return None
        s, n, d, c = pc
        params = c.formula["params"] if c.formula else []
        args = gen.eval_args(self.rng, params, self.cfg)
        how = "setitem"
        if not params:
            how = self.rng.choice(["setitem", "value", "attr"])
        mine = [(k, v) for k, v in sorted(s.inputs.items(), key=repr) if k[0] == n and isinstance(v, int)]
        if mine and self.rng.random() < self.cfg.get("p_same_input", 0.12):
            # the value that is there already, assigned again (the identical object): an overwrite like any other
            k, v = mine[self.rng.randrange(len(mine))]
            if len(k[1]) == len(params):
                return {"op": "set_value", "space": s.path(), "name": n, "args": list(k[1]), "value": v, "how": how, "same": True}
        return {"op": "set_value", "space": s.path(), "name": n, "args": args, "value": self.fresh.next(), "how": how}

    def g_clear(self):
        rng = self.rng
        r = rng.random()
        if r < 0.55:
            pc = self.pick_cells()
            if not pc:
                return None
            s, n, d, c = pc
            params = c.formula["params"] if c.formula else []
            k = rng.choice(["clear_at", "clear_at", "clear", "clear_all"])
            op = {"op": k, "space": s.path(), "name": n}
            if k == "clear_at":
                op["args"] = gen.eval_args(rng, params, self.cfg)
                if not params and rng.random() < 0.3:
                    op["how"] = "delvalue"
            return op
        s = gen.pick_space(rng, self.ref)
        if not s:
            return None
        if r < 0.7:
            return {"op": "space_clear_all", "space": s.path()}
        if r < 0.85:
            return {"op": "space_clear_cells", "space": s.path(), "clear_input": rng.random() < 0.5,
                    "recursive": rng.random() < 0.5}
        if r < 0.95:
            return {"op": "clear_items", "space": s.path()}
        return {"op": "model_clear_all"}

    def g_eval(self, loc=None):
        rng = self.rng
        pc = self.pick_cells()
        if not pc:
            return None
        s, n, d, c = pc
        params = c.formula["params"] if c.formula else []
        args = gen.eval_args(rng, params, self.cfg)
        spell = rng.choice(["pos", "pos", "kw", "idx", "attrcall"]) if args else rng.choice(["pos", "value", "idx", "attrcall"])
        loc = [x for x in s.path().split(".")]
        if self.cfg.get("nested_item_eval"):
            # every parametrised space on the path may contribute an item segment (nested ItemSpaces)
            chain = []
            x = s
            while isinstance(x, rm.RSpace):
                chain.append(x)
                x = x.parent
            loc = []
            for x in reversed(chain):
                loc.append(x.name)
                if x.formula is not None and rng.random() < self.cfg.get("p_item_eval", 0.5):
                    iargs = [rng.randrange(0, 3) for p, dflt in x.formula["params"] if dflt is None or rng.random() < 0.4]
                    loc.append(["item", iargs, rng.choice(["idx", "call"])])
            return {"op": "eval", "loc": loc, "name": n, "args": args, "spell": spell}
        if s.formula is not None and rng.random() < self.cfg.get("p_item_eval", 0.5):
            iargs = [rng.randrange(0, 3) for p, dflt in s.formula["params"] if dflt is None or rng.random() < 0.4]
            loc = loc + [["item", iargs, rng.choice(["idx", "call"])]]
        elif isinstance(s.parent, rm.RSpace) and rng.random() < self.cfg.get("p_item_eval", 0.5):
            # the nearest parametrised ancestor: evaluate inside its ItemSpace (dynamic child, grandchild, ...)
            anc, up = s.parent, 1
            while isinstance(anc, rm.RSpace) and anc.formula is None:
                anc, up = anc.parent, up + 1
            if isinstance(anc, rm.RSpace):
                iargs = [rng.randrange(0, 3) for p, dflt in anc.formula["params"] if dflt is None or rng.random() < 0.4]
                loc = loc[:-up] + [["item", iargs, rng.choice(["idx", "call"])]] + loc[-up:]
        return {"op": "eval", "loc": loc, "name": n, "args": args, "spell": spell}

    GENS = {
        "new_space": "g_new_space", "new_cells": "g_new_cells", "set_formula": "g_set_formula",
        "del_cells": "g_del_cells", "rename_cells": "g_rename_cells", "set_cached": "g_set_cached",
        "set_ref": "g_set_ref", "del_ref": "g_del_ref", "del_space": "g_del_space",
        "rename_space": "g_rename_space", "bases": "g_bases", "sformula": "g_sformula",
        "set_value": "g_set_value", "clear": "g_clear", "eval": "g_eval",
    }

    def next_op(self, weights):
        kinds = sorted(weights)
        tot = sum(weights[k] for k in kinds)
        for _ in range(8):
            x = self.sched.random() * tot
            acc = 0.0
            pick = kinds[-1]
            for k in kinds:
                acc += weights[k]
                if x < acc:
                    pick = k
                    break
            if pick == "gc":
                return {"op": "gc"}
            op = getattr(self, self.GENS[pick])()
            if op is not None:
                return op
        return {"op": "gc"}

    # ---- initial model ---------------------------------------------------
    def build(self, n_spaces=3, n_cells=3, n_refs=2, do=None):
        rng = self.rng
        do = do or self.do
        for _ in range(n_refs):
            op = self.g_set_ref(self.ref)
            if op:
                do(op)
        tries = 0
        while len(list(self.ref.all_spaces())) < n_spaces and tries < n_spaces * 4:
            tries += 1
            op = self.g_new_space()
            if op:
                do(op)
        for s in list(self.ref.all_spaces()):
            for _ in range(rng.choice([0, 1, 2])):
                op = self.g_set_ref(s)
                if op:
                    do(op)
        order = list(self.ref.all_spaces())
        if self.cfg.get("p_cellsless"):
            # some spaces hold references only (a namespace nobody reads stays stale much longer there)
            order = [s for s in order if rng.random() >= self.cfg["p_cellsless"]]
        if self.cfg.get("cellsless_paths"):
            order = [s for s in order if s.path() not in self.cfg["cellsless_paths"]]
        for rnd in range(n_cells):
            for s in order:
                if rng.random() < 0.75:
                    op = self.g_new_cells(s)
                    if op:
                        do(op)
