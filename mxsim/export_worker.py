"""Runs in a modelx-free subprocess: imports an exported package and answers a query schedule.

usage: python export_worker.py <package parent dir> <package name> <queries.json> <out.json>
"""
import sys, json, builtins, os

_imp = builtins.__import__


def guard(name, *a, **k):
    if name == "modelx" or name.startswith("modelx."):
        raise ImportError("modelx is blocked in the export worker")
    return _imp(name, *a, **k)


def _norm(v):
    # the same normalisation as mxsim.world.norm for the values the subset can return
    if isinstance(v, (int, float, str, bool)) or v is None:
        return v
    if isinstance(v, (list, tuple)):
        return [_norm(x) for x in v]
    if isinstance(v, dict):
        return {str(k): _norm(x) for k, x in v.items()}
    if hasattr(v, "_mx_spaces"):
        from mxsim import probe
        return "<UserSpace %s>" % probe._path_exported(v)
    if hasattr(v, "__self__") and hasattr(v.__self__, "_mx_spaces") and hasattr(v, "__name__"):
        from mxsim import probe
        pth = probe._path_exported(v.__self__)
        return "<Cells %s>" % ((pth + "." if pth else "") + v.__name__)
    if callable(v) and hasattr(v, "__name__") and not hasattr(getattr(v, "__self__", None), "_mx_spaces"):
        return "<fn %s>" % v.__name__      # plain and built-in functions alike (built-ins have __self__ = the module)
    return "<%s>" % type(v).__name__


def main():
    pdir, pname, qfile, ofile = sys.argv[1:5]
    sys.path.insert(0, pdir)
    sys.path.insert(0, os.path.dirname(os.path.dirname(os.path.abspath(__file__))))
    builtins.__import__ = guard
    from mxsim import probe
    out = {"results": [], "modelx_loaded": False}
    try:
        pkg = _imp(pname)
        mm = pkg.mx_model
    except BaseException as e:
        out["import_error"] = "%s: %s" % (type(e).__name__, str(e)[:300])
        json.dump(out, open(ofile, "w"))
        return
    qs = json.load(open(qfile))
    for q in qs:
        try:
            if q["op"] == "del_item":
                obj = mm
                for seg in q["loc"]:
                    obj = getattr(obj, seg)
                a = tuple(q["args"])
                obj.__delitem__(a)
                out["results"].append(["ok", None])
                continue
            obj = mm
            for seg in q["loc"]:
                if isinstance(seg, str):
                    obj = getattr(obj, seg)
                else:
                    obj = obj(*seg[1])
            c = getattr(obj, q["name"])
            args = [list(a) if isinstance(a, list) else a for a in q["args"]]
            if q.get("spell") == "kw" and q.get("pnames") and len(q["pnames"]) >= len(args):
                v = c(**dict(zip(q["pnames"], args)))
            else:
                v = c(*args)
            out["results"].append(["ok", _norm(v)])
        except BaseException as e:
            out["results"].append(["exc", type(e).__name__, str(e)[:120]])
    out["log"] = [[s[0], s[1], s[2], list(s[3])] for s in probe.LOG]
    out["modelx_loaded"] = any(n == "modelx" or n.startswith("modelx.") for n in sys.modules)
    json.dump(out, open(ofile, "w"), default=repr)


if __name__ == "__main__":
    main()
