"""Fault enumeration over the probe points of one query (shared by C05 and C17)."""
import modelx as mx
from modelx.core.errors import FormulaError
from . import machine, gen, grammar, probe, refmodel as rm, history
from .props.base import Violation
from .world import norm, objpath, library_self_check, left_executing

KINDS = ["ValueError", "ZeroDivisionError", "KeyError", "InjectedError", "MemoryError", "RecursionError",
         "KeyboardInterrupt"]


def swarm(rng, base):
    cfg = base
    cfg.update({"n_spaces": rng.choice([2, 3]), "n_cells": rng.choice([3, 4, 5]), "n_refs": rng.choice([1, 2]),
                "try": True, "p_try": rng.choice([0.2, 0.4]), "rfilter": True, "p_def": 0.7, "p_uncached": rng.choice([0.0, 0.25, 0.5]),
                "p_sformula": rng.choice([0.0, 0.3]), "p_sprobe": 1.0, "p_objref": 0.0, "recalc": False, "depth": rng.choice([2, 3]),
                "formula_error": rng.random() < 0.8, "n_kinds": rng.choice([2, 3]), "p_selfrec": 0.5,
                "p_prior": rng.choice([0.0, 0.5, 1.0]), "p_guard": rng.choice([0.0, 0.0, 0.3, 0.5])})
    if cfg["p_guard"]:
        cfg["p_prior"] = 1.0
    return cfg


def tb_elements(tb):
    out = []
    for entry in tb:
        node, line = entry[0], entry[1]
        o = node.obj
        from modelx.core.cells import Cells
        if isinstance(o, Cells):
            out.append(((objpath(o.parent), o.name, tuple(node.args)), line))
        else:
            out.append(((objpath(o), None, tuple(node.args)), line))
    return out


class Scenario:
    """One model, one query; every probe point of the fault-free evaluation x a seeded subset of kinds."""

    def __init__(self, ctx, prop_id, check_state, check_tb):
        self.ctx = ctx
        self.pid = prop_id
        self.check_state = check_state
        self.check_tb = check_tb

    def run(self):
        ctx = self.ctx
        cfg = ctx.cfg
        mx.set_recalc(False)
        mx.use_formula_error(bool(cfg.get("formula_error", True)))
        mach = machine.Machine(ctx.seed, cfg)
        self.mach = mach
        if ctx.doc is None:
            mach.build(cfg["n_spaces"], cfg["n_cells"], cfg["n_refs"])
            steps = list(mach.steps)
            # choose a query that touches several elements in the fault-free evaluation
            best = None
            for _ in range(8):
                q = mach.g_eval()
                if q is None or not history.eval_target_exists(mach.ref, q):
                    continue
                ev = grammar.Evaluator(mach.ref)
                r = ev.top_call(self.loc(q), q["name"], list(q["args"]))
                if r[0] == "unknown" or getattr(ev, "poisoned", False):
                    continue
                n = len(ev.log)
                if n > 150:
                    continue      # bound the enumeration (uncached recursion can make the probe sequence explode)
                if best is None or n > best[0]:
                    best = (n, q, list(ev.log), r)
            if best is None or best[0] == 0:
                ctx.steps = steps
                ctx.events = mach.events
                return
            n, q, sites, r = best
            steps.append(dict(q, main=True))
            frng = mach.frng
            # fault list: every probe point (site, occurrence) x seeded kinds; plus None-returns where the filter is used
            plans = []
            occ = {}
            for site in sites:
                k = occ.get(site, 0)
                occ[site] = k + 1
                kinds = frng.sample(KINDS, cfg["n_kinds"])
                for kind in kinds:
                    plans.append({"faults": [{"site": [site[0], site[1], site[2], list(site[3])], "occ": k, "exc": kind}]})
            for el in sorted({(s[0], s[1], s[3]) for s in sites if s[2] == 0}, key=repr):
                plans.append({"nones": [{"site": [el[0], el[1], list(el[2])], "occ": 0}]})
            # sequences: an earlier fault (possibly handled by a formula) followed by another
            if len(sites) >= 2 and frng.random() < cfg.get("p_prior", 0.5):
                for _ in range(min(6, len(sites))):
                    a, b = frng.sample(range(len(sites)), 2)
                    sa, sb = sites[min(a, b)], sites[max(a, b)]
                    plans.append({"faults": [
                        {"site": [sa[0], sa[1], sa[2], list(sa[3])], "occ": 0, "exc": frng.choice(KINDS[:4])},
                        {"site": [sb[0], sb[1], sb[2], list(sb[3])], "occ": 0, "exc": frng.choice(KINDS)}]})
            if cfg.get("p_guard"):
                # a clean-up block may run the failed call again: the same point failing a second time, differently
                for _ in range(min(8, len(sites))):
                    sa = sites[frng.randrange(len(sites))]
                    plans.append({"faults": [
                        {"site": [sa[0], sa[1], sa[2], list(sa[3])], "occ": 0, "exc": frng.choice(KINDS[:4])},
                        {"site": [sa[0], sa[1], sa[2], list(sa[3])], "occ": 1, "exc": frng.choice(KINDS[:4])}]})
            for p in plans:
                steps.append({"op": "fault", "plan": p})
        else:
            steps = ctx.doc["steps"]
            for s in steps:
                if s["op"] not in ("eval", "fault", "gc"):
                    mach.do(s, record=False)
        ctx.steps = steps
        q = None
        for s in steps:
            if s["op"] == "eval" and s.get("main"):
                q = s
        if q is None:
            ctx.events = mach.events
            return
        self.q = q
        n_checked = 0
        for s in steps:
            if s["op"] == "fault":
                self.one_fault(s["plan"])
                n_checked += 1
        ctx.nsteps = n_checked
        ctx.events = mach.events
        mx.use_formula_error(True)

    def loc(self, q):
        return [seg if isinstance(seg, str) else ["item", seg[1]] for seg in q["loc"]]

    # ------------------------------------------------------------------
    def one_fault(self, plan):
        ctx, mach, q = self.ctx, self.mach, self.q
        ref = mach.ref
        m = mach.world.m
        m.clear_all()
        probe.reset()
        ev = grammar.Evaluator(ref, plan=probe.FaultPlan(plan.get("faults", ()), plan.get("nones", ())))
        want = ev.top_call(self.loc(q), q["name"], list(q["args"]))
        if want[0] == "unknown" or getattr(ev, "poisoned", False):
            return
        live_plan = probe.FaultPlan(plan.get("faults", ()), plan.get("nones", ()))
        probe.arm(live_plan)
        raised = None
        try:
            val = self.call(q)
            live = ("val", norm(val))
        except FormulaError as e:
            raised = e
            err = mx.get_error()
            live = ("exc", type(err).__name__ if err is not None else "FormulaError")
        except BaseException as e:
            raised = e
            live = ("exc", type(e).__name__)
        probe.arm(None)
        fired = [f for f in live_plan.fired]
        for site, kind in fired:
            ctx.count(kind, 1, "faults_fired")
        if not fired:
            ctx.count("armed_not_reached", 1, "faults")
        mach.events.append("fault %r -> %s | %s" % (plan, live, want))
        desc = {"plan": plan, "query": {k: v for k, v in q.items()}, "modelx": live, "evaluator": (want[0], norm(want[1]) if want[0] == "val" else want[1])}
        kind = self.plan_kind(plan)
        depth = len(ev.last_stack) if ev.last_stack else 0
        if want[0] == "exc" and depth >= 2 and len(ev.memo) >= 1:
            ctx.nontrivial = True
            ctx.count("fault_at_depth_ge2_with_completed_elements", 1, "reach")
        if ev.handled:
            ctx.count("failure_handled_by_formula", 1, "reach")

        # --- outcome ----------------------------------------------------
        if live[0] != want[0] or (live[0] == "val" and live[1] != norm(want[1])) or (live[0] == "exc" and live[1] != want[1]):
            raise Violation("%s/outcome-differs/%s/%s!=%s" % (self.pid, kind, live[0] if live[0] == "val" else "exc:" + live[1],
                                                             want[0] if want[0] == "val" else "exc:" + want[1]), desc)
        if want[0] == "exc":
            if ctx.cfg.get("formula_error", True):
                if not isinstance(raised, FormulaError):
                    raise Violation("%s/not-wrapped-in-FormulaError/%s" % (self.pid, kind), desc)
            else:
                if isinstance(raised, FormulaError):
                    raise Violation("%s/wrapped-although-disabled/%s" % (self.pid, kind), desc)
            err = mx.get_error()
            inj = probe.LAST_RAISED[0]
            k = getattr(ev.last_exc, "fired_index", None)
            if k is not None and want[1] in probe.EXC and k < len(probe.RAISED):
                # the injected object that escaped (a later one may have been raised and handled in a clean-up block)
                if err is not probe.RAISED[k]:
                    raise Violation("%s/get_error-not-the-original/%s" % (self.pid, kind), dict(desc, got=repr(err)[:200]))
            elif want[1] in probe.EXC and fired and fired[-1][1] == want[1] and k is None:
                if err is not inj:
                    raise Violation("%s/get_error-not-the-original/%s" % (self.pid, kind), dict(desc, got=repr(err)[:200]))
            elif err is None or type(err).__name__ != want[1]:
                raise Violation("%s/get_error-wrong/%s" % (self.pid, kind), dict(desc, got=repr(err)[:200]))
        if self.check_tb:
            self.traceback(ev, want, desc, kind)
        if self.check_state:
            self.state(ev, desc, kind, "after-failure" if want[0] == "exc" else "after-success")
            # --- retry: behaves as a top-level call, completed elements are not re-executed -------------
            ev.plan = None
            n0 = len(probe.LOG)
            e0 = len(ev.log)
            want2 = ev.top_call(self.loc(q), q["name"], list(q["args"]))
            try:
                live2 = ("val", norm(self.call(q)))
            except FormulaError:
                err = mx.get_error()
                live2 = ("exc", type(err).__name__ if err is not None else "FormulaError")
            except BaseException as e:
                live2 = ("exc", type(e).__name__)
            w2 = ("val", norm(want2[1])) if want2[0] == "val" else want2
            if live2 != w2:
                raise Violation("%s/retry-differs/%s" % (self.pid, kind), dict(desc, retry_modelx=live2, retry_evaluator=w2))
            got_log = sorted(map(repr, probe.LOG[n0:]))
            want_log = sorted(map(repr, ev.log[e0:]))
            if got_log != want_log:
                extra = [x for x in got_log if x not in want_log]
                missing = [x for x in want_log if x not in got_log]
                raise Violation("%s/retry-executions-differ/%s/%s" % (self.pid, kind, "re-executed" if extra and not missing else "other"),
                                dict(desc, extra=extra[:5], missing=missing[:5]))
            ctx.count("retries_checked", 1, "reach")
            self.state(ev, desc, kind, "after-retry")
            self.nfaults = getattr(self, "nfaults", 0) + 1
            if ev.handled or self.nfaults % 4 == 0:
                # the dependency graph after the failure (and the retry) is the one of the elements now held: nothing of a
                # failed chain, and every reference an element read - also one read before a callee failed and the failure
                # was handled by the formula - among its precedents
                self.graph_after(ev, desc, kind)
            if isinstance(library_self_check(getattr(m, "_impl", None)), AssertionError):
                raise Violation("%s/sanity-check-failed/%s" % (self.pid, kind), desc)
            sysm = mx.core.mxsys
            if left_executing():
                raise Violation("%s/left-marked-executing/%s" % (self.pid, kind), desc)
        if self.check_tb and want[0] == "exc":
            # after a later successful top-level call both are empty
            ev.plan = None
            w = ev.top_call(self.loc(q), q["name"], list(q["args"]))
            try:
                self.call(q)
                ok = True
            except BaseException:
                ok = False
            if ok and w[0] == "val":
                if mx.get_error() is not None or mx.get_traceback():
                    raise Violation("%s/error-info-survives-success/%s" % (self.pid, kind), desc)

    def call(self, q):
        w = self.mach.world
        return w.op_eval(q)

    def graph_after(self, ev, desc, kind):
        from .props import c08

        class _View:
            pass
        g = _View()
        g.mach, g.ev, g.ctx = self.mach, ev, self.ctx
        try:
            c08.C08.graph(g, {"op": "failure-" + ("handled" if ev.handled else "retried")}, ignore_items=True)
        except Violation as v:
            raise Violation("%s/graph-after-failure/%s/%s" % (self.pid, v.sig.split("/", 1)[-1], kind), dict(desc, graph=v.detail))
        self.ctx.count("graph_checked_after_failure" + ("_handled" if ev.handled else ""), 1, "reach")

    def plan_kind(self, plan):
        if plan.get("nones"):
            return "none-returned"
        fs = plan.get("faults", [])
        if len(fs) > 1:
            return "two-faults"
        return fs[0]["exc"] if fs else "no-fault"

    # ------------------------------------------------------------------
    def state(self, ev, desc, kind, when):
        """dict(cells) of every cells equals the evaluator's held map: elements completed before the failure keep
        correct values, no element of the failing chain has one."""
        mach = self.mach
        for s in mach.ref.all_spaces():
            live = mach.world.space(s.path())
            for n, (d, c) in gen.visible_cells(s).items():
                held = mach.world.held(s.path(), n)
                exp = {tuple(el[2]): norm(v) for el, v in ev.memo.items() if el[0] == s.path() and el[1] == n}
                if not c.is_cached:
                    exp = {}
                if held != exp:
                    extra = {repr(k): v for k, v in held.items() if k not in exp}
                    missing = {repr(k): v for k, v in exp.items() if k not in held}
                    wrong = {repr(k): (held[k], exp[k]) for k in held if k in exp and held[k] != exp[k]}
                    what = "value-on-failed-chain" if extra else ("completed-value-lost" if missing else "wrong-value")
                    raise Violation("%s/state-%s/%s/%s" % (self.pid, when, what, kind),
                                    dict(desc, cells=s.path() + "." + n, extra=extra, missing=missing, wrong=wrong))
        self.ctx.count("state_checks", 1, "reach")

    # ------------------------------------------------------------------
    def traceback(self, ev, want, desc, kind):
        if want[0] != "exc":
            if mx.get_traceback() or mx.get_error() is not None:
                raise Violation("%s/error-info-after-success/%s" % (self.pid, kind), desc)
            return
        tb = tb_elements(mx.get_traceback())
        exp = [(tuple((el[0], el[1], tuple(el[2]))), ln) for el, ln in (ev.last_stack or [])]
        got_els = [e for e, ln in tb]
        exp_els = [e for e, ln in exp]
        self.ctx.count("tracebacks_checked", 1, "reach")
        if got_els != exp_els:
            what = "extra-frames" if len(got_els) > len(exp_els) else ("missing-frames" if len(got_els) < len(exp_els) else "different-frames")
            raise Violation("%s/traceback-%s/%s" % (self.pid, what, kind), dict(desc, traceback=[list(map(str, e)) for e in got_els],
                                                                          executing=[list(map(str, e)) for e in exp_els]))
        noline = getattr(ev.last_exc, "noline", False)
        for i, ((e, ln), (e2, ln2)) in enumerate(zip(tb, exp)):
            if noline and i == len(exp) - 1:
                continue
            if ln != ln2:
                raise Violation("%s/traceback-line-differs/%s" % (self.pid, kind),
                                dict(desc, frame=list(map(str, e)), modelx_line=ln, expected_line=ln2, index=i, depth=len(exp)))
