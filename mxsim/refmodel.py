"""RefModel: a deliberately naive specification of the *definitions* of a modelx session.

Nothing derived is stored.  Derivations (C3 order via CPython's own MRO, derived members,
namespaces, reference rebinding, dynamic trees) are computed on demand.
Objects refer to each other by Python identity, so renames need no path rewriting.
"""
from collections import OrderedDict


class RObj:
    deleted = False


class RRef(RObj):
    def __init__(self, name, value, mode="auto"):
        self.name = name
        self.value = value      # python value | RSpace | RCells | ("probe", name) | ("fn", name)
        self.mode = mode


class RCells(RObj):
    def __init__(self, name, formula, is_cached=True, allow_none=None):
        self.name = name
        self.formula = formula   # dict (grammar.py) or None for the null formula
        self.is_cached = is_cached
        self.allow_none = allow_none
        self.space = None
        self.pname = name

    def copy(self):
        c = RCells(self.name, self.formula, self.is_cached, self.allow_none)
        c.pname = self.pname
        return c


class RSpace(RObj):
    def __init__(self, name, parent):
        self.name = name
        self.parent = parent          # RSpace | RModel
        self.bases = []               # direct bases, ordered
        self.cells = OrderedDict()    # defined cells
        self.refs = OrderedDict()     # defined refs
        self.spaces = OrderedDict()   # child spaces
        self.formula = None           # param formula dict or None
        self.doc = None
        self.allow_none = None
        self.inputs = {}              # (cellsname, args) -> value   (static space only)

    @property
    def model(self):
        p = self
        while not isinstance(p, RModel):
            p = p.parent
        return p

    def path(self):
        parts = []
        p = self
        while isinstance(p, RSpace):
            parts.append(p.name)
            p = p.parent
        return ".".join(reversed(parts))

    def depth(self):
        return self.path().count(".") + 1

    def walk(self):
        yield self
        for s in list(self.spaces.values()):
            yield from s.walk()

    def is_in(self, other):
        p = self
        while isinstance(p, RSpace):
            if p is other:
                return True
            p = p.parent
        return False


class RModel(RObj):
    def __init__(self, name):
        self.name = name
        self.refs = OrderedDict()
        self.spaces = OrderedDict()
        self.doc = None
        self.allow_none = False
        self.parent = None

    model = property(lambda self: self)

    def path(self):
        return ""

    def all_spaces(self):
        for s in list(self.spaces.values()):
            yield from s.walk()

    def space(self, path):
        if path == "" or path is None:
            return self
        cur = self
        for part in path.split("."):
            cur = cur.spaces.get(part)
            if cur is None:
                return None
        return cur


class NoMRO(Exception):
    pass


def mro(space, _cache=None):
    """C3 linearisation by asking CPython (independent of modelx's get_mro)."""
    classes = {}

    def build(s, stack=()):
        if id(s) in classes:
            return classes[id(s)]
        if s in stack:
            raise NoMRO("cycle")
        bs = tuple(build(b, stack + (s,)) for b in s.bases)
        try:
            c = type("S", bs or (object,), {"_s": s})
        except TypeError as e:
            raise NoMRO(str(e))
        classes[id(s)] = c
        return c

    c = build(space)
    return [k._s for k in c.__mro__ if k is not object]


def has_cycle(model):
    color = {}

    def visit(s):
        color[id(s)] = 1
        for b in s.bases:
            st = color.get(id(b), 0)
            if st == 1:
                return True
            if st == 0 and visit(b):
                return True
        color[id(s)] = 2
        return False

    for s in model.all_spaces():
        if color.get(id(s), 0) == 0 and visit(s):
            return True
    return False


def subs_of(model, space):
    """All spaces having `space` in their MRO (excluding itself)."""
    out = []
    for s in model.all_spaces():
        if s is space:
            continue
        try:
            if space in mro(s)[1:]:
                out.append(s)
        except NoMRO:
            pass
    return out


def derived_cells(space):
    """name -> (definer space, RCells) for every cells visible in the space (defined or derived)."""
    out = OrderedDict()
    for s in mro(space):
        for n, c in s.cells.items():
            if n not in out:
                out[n] = (s, c)
    return out


def derived_refs(space):
    out = OrderedDict()
    for s in mro(space):
        for n, r in s.refs.items():
            if n not in out:
                out[n] = (s, r)
    return out


def rebind(value, definer, deriver, mode):
    """Static derivation of an object-valued reference.

    Returns (value, is_relative, known).  known=False where the statement is silent (a target that is a
    descendant of the definer: child spaces are not inherited, so the deriver has no corresponding object).
    """
    if not isinstance(value, (RSpace, RCells)) and not (isinstance(value, tuple) and value and value[0] == "cells-of"):
        return value, mode != "absolute", True
    if definer is deriver:
        return value, mode != "absolute", True
    if mode == "absolute":
        return value, False, True
    if isinstance(value, tuple):
        tspace, cname = value[1], value[2]
    else:
        tspace = value if isinstance(value, RSpace) else value.space
        cname = None if isinstance(value, RSpace) else value.name
    if tspace is definer:
        if cname is None:
            return deriver, True, True
        dc = derived_cells(deriver).get(cname)
        return (("cells-of", deriver, cname) if dc else None), True, True
    if tspace is not None and tspace.is_in(definer):
        return value, True, False
    if tspace is not None and definer.is_in(tspace):
        # the target is an ancestor of the definer (or a cells of one): modelx rebinds it when the deriver's ancestors
        # derive the definer's ancestors in parallel; the statement does not say - not judged
        return value, True, False
    def top(x):
        while isinstance(x.parent, RSpace):
            x = x.parent
        return x
    if tspace is not None and top(tspace) is top(definer):
        # a sibling / cousin inside the same top-level tree: modelx rebinds it when the deriver's ancestors derive the
        # definer's ancestors in parallel and the corresponding object exists; the statement does not say - not judged
        return value, True, False
    return value, False, True
