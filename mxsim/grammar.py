"""Formula trees: renderer to modelx formula source, and an independent evaluator.

The evaluator walks the same trees against RefModel's derived namespaces.  It shares no code
with modelx (no exec, no FunctionType, no ChainMap, no networkx).

Formula dict:
  {"style": "def"|"lambda", "params": [[name, default|None], ...],
   "lets": [[var, expr] | ["try", var, expr, handler] | ["guard", var, expr, side, "reraise"|"finally"]], "ret": expr, "doc": str|None, "rfilter": bool}
Param-formula dict (spaces):
  {"params": [[name, default|None], ...], "ret": None | {"refs": {name: expr}} | {"base": path}, "probe": bool,
   "pre": expr|None}
"""
from collections import OrderedDict
from . import refmodel as rm

BUILTINS = {"max": max, "min": min, "abs": abs, "sum": sum, "len": len}


# --------------------------------------------------------------------------
# rendering

def r_expr(e):
    k = e[0]
    if k == "c":
        return repr(e[1])
    if k == "p":
        return e[1]
    if k == "n":
        return e[1]
    if k == "a":
        return r_path(e[1]) + "." + e[2]
    if k == "call":
        _, recv, name, args, spell = e[:5]
        head = (r_path(recv) + "." if recv else "") + name
        return head + r_args(args, spell, e[5] if len(e) > 5 else None)
    if k == "bin":
        return "(%s %s %s)" % (r_expr(e[2]), e[1], r_expr(e[3]))
    if k == "cmp":
        return "(%s %s %s)" % (r_expr(e[2]), e[1], r_expr(e[3]))
    if k == "if":
        return "(%s if %s else %s)" % (r_expr(e[2]), r_expr(e[1]), r_expr(e[3]))
    if k == "bi":
        return "%s(%s)" % (e[1], ", ".join(r_expr(a) for a in e[2]))
    if k == "sum":
        _, var, n, body, form = e
        inner = "%s for %s in range(%d)" % (r_expr(body), var, n)
        return "sum([%s])" % inner if form == "list" else "sum(%s)" % inner
    if k == "lst":
        return "[" + ", ".join(r_expr(a) for a in e[1]) + "]"
    if k == "nested":
        # a nested lambda whose local shadows a global name: (lambda k: k + 1)(expr)
        return "(lambda %s: %s)(%s)" % (e[1], r_expr(e[2]), r_expr(e[3]))
    raise ValueError(k)


def r_args(args, spell, pnames=None):
    if spell == "idx":
        if len(args) == 1:
            return "[" + r_expr(args[0]) + "]"
        return "[" + ", ".join(r_expr(a) for a in args) + "]"
    if spell == "kw" and pnames:
        return "(" + ", ".join("%s=%s" % (p, r_expr(a)) for p, a in zip(pnames, args)) + ")"
    return "(" + ", ".join(r_expr(a) for a in args) + ")"


def r_path(path):
    out = []
    for seg in path:
        if isinstance(seg, str):
            out.append(("." if out else "") + seg)
        else:  # ["item", args, spell]
            _, args, spell = seg
            out.append(r_args(args, "idx" if spell == "idx" else "pos"))
    return "".join(out)


def r_params(params):
    return ", ".join(p if d is None else "%s=%r" % (p, d) for p, d in params)


def probe_call(name, pt, params):
    return "P(_space, %r, %d%s)" % (name, pt, "".join(", " + p for p, _ in params))


def render(name, f):
    """Return modelx formula source for cells `name`."""
    if f is None:
        return None
    params = f["params"]
    ret = r_expr(f["ret"])
    if f.get("rfilter"):
        ret = "R(_space, %r, %s%s)" % (name, "".join(p + ", " for p, _ in params), ret)
    if f["style"] == "lambda":
        if f.get("noprobe"):
            return "lambda %s: %s" % (r_params(params), ret)
        return "lambda %s: (%s, %s)[1]" % (r_params(params), probe_call(name, 0, params), ret)
    lines = ["def %s(%s):" % (name, r_params(params))]
    if f.get("doc") is not None:
        lines.append("    " + doc_literal(f["doc"]))
    if f.get("comment"):
        lines.append("    # " + f["comment"])
    if not f.get("noprobe"):
        lines.append("    " + probe_call(name, 0, params))
    pt = 0
    for let in f.get("lets", []):
        pt += 1
        if let[0] == "try":
            _, var, e, h = let
            lines.append("    try:")
            lines.append("        %s = %s" % (var, r_expr(e)))
            lines.append("    except Exception:")
            lines.append("        %s = %s" % (var, r_expr(h)))
        elif let[0] == "guard":
            # a clean-up that itself fails and handles its failure while the first exception is on its way out
            _, var, e, side, mode = let
            lines.append("    try:")
            lines.append("        %s = %s" % (var, r_expr(e)))
            lines.append("    except Exception:" if mode == "reraise" else "    finally:")
            lines.append("        try:")
            lines.append("            %s" % r_expr(side))
            lines.append("        except Exception:")
            lines.append("            pass")
            if mode == "reraise":
                lines.append("        raise")
        else:
            var, e = let
            lines.append("    %s = %s" % (var, r_expr(e)))
        if not f.get("noprobe"):
            lines.append("    " + probe_call(name, pt, params))
    lines.append("    return " + ret)
    return "\n".join(lines)


def doc_literal(doc):
    return '"""' + doc + '"""'


def line_map(name, f):
    """For def-style formulas: line number (1-based, as modelx reports) of each probe point and each let.

    Returns {"probe": {pt: line}, "let": {index: line}, "ret": line}.
    """
    out = {"probe": {}, "let": {}, "ret": None}
    if f["style"] == "lambda":
        out["probe"][0] = 1
        out["ret"] = 1
        return out
    ln = 1
    if f.get("doc") is not None:
        ln += 1 + f["doc"].count("\n")
    if f.get("comment"):
        ln += 1
    ln += 1
    out["probe"][0] = ln
    pt = 0
    for i, let in enumerate(f.get("lets", [])):
        pt += 1
        if let[0] == "try":
            out["let"][i] = ln + 2
            out["let_handler_%d" % i] = ln + 4
            ln += 4
        elif let[0] == "guard":
            out["let"][i] = ln + 2
            out["let_handler_%d" % i] = ln + 5
            ln += 8 if let[4] == "reraise" else 7
        else:
            ln += 1
            out["let"][i] = ln
        ln += 1
        out["probe"][pt] = ln
    out["ret"] = ln + 1
    return out


def render_space_formula(f):
    if f is None:
        return None
    params = r_params(f["params"])
    ret = f.get("ret")
    if ret is None:
        body = "None"
    elif "refs" in ret:
        body = "{'refs': {" + ", ".join("%r: %s" % (k, r_expr(v)) for k, v in ret["refs"].items()) + "}}"
    elif "base" in ret:
        body = "{'base': _model.%s}" % ret["base"]
    else:
        raise ValueError(ret)
    if f.get("probe"):
        pc = "P(_space, '_formula', 0%s)" % "".join(", " + p for p, _ in f["params"])
        pre = ""
        if f.get("pre") is not None:
            pre = ", " + r_expr(f["pre"])
            return "lambda %s: (%s%s, %s)[2]" % (params, pc, pre, body)
        return "lambda %s: (%s, %s)[1]" % (params, pc, body)
    if f.get("pre") is not None:
        return "lambda %s: (%s, %s)[1]" % (params, r_expr(f["pre"]), body)
    return "lambda %s: %s" % (params, body)


# --------------------------------------------------------------------------
# evaluator

def _freeze(a):
    if isinstance(a, list):
        return tuple(_freeze(x) for x in a)
    return a


class EvalRaise(Exception):
    """An exception the real formula would raise; .cls is the class name."""
    def __init__(self, cls, msg="", catchable=True):
        Exception.__init__(self, cls, msg)
        self.cls = cls
        self.msg = msg
        self.catchable = catchable    # caught by `except Exception`


class EvalUnknown(Exception):
    """The evaluator declines to predict (semantics outside its model): the request is skipped, never judged."""


class Inst:
    """A space instance in which formulas run: a static space or a node of a dynamic tree."""
    __slots__ = ("base", "parent", "args", "xrefs", "key", "root", "name", "children", "items", "dead")

    def __init__(self, base, parent=None, args=None, xrefs=None, key=None, root=None, name=None):
        self.base = base          # RSpace whose members it shows
        self.parent = parent      # Inst | RModel
        self.args = args          # OrderedDict for ItemSpace roots else None
        self.xrefs = xrefs or {}
        self.key = key
        self.root = root          # innermost ItemSpace root Inst (None for static)
        self.name = name
        self.children = {}
        self.items = {}
        self.dead = False

    @property
    def is_dynamic(self):
        return self.root is not None

    def path(self):
        if self.key is not None:
            return self.parent.path() + "[" + ", ".join(repr(a) for a in self.key) + "]"
        pp = self.parent.path() if isinstance(self.parent, Inst) else ""
        return (pp + "." if pp else "") + self.name


class Evaluator:
    def __init__(self, model, plan=None, maxdepth=None, static_insts=None):
        self.m = model
        self.plan = plan                # FaultPlan-like: .check(site) -> exception class name | None
        self.maxdepth = maxdepth
        self.memo = {}                  # element -> value   (cached cells, held values)
        self.inputs = set()             # elements that are inputs
        self.log = []                   # executions: (path, name, pt, args)
        self.stack = []                 # executing elements
        self.edges = {}                 # caller element -> set(callee elements | ("obj", path, name))
        self.attrreads = {}             # element -> set((owner path, refname))
        self.attrpass = {}              # element -> references read by attribute inside uncached callees
        self.static = {}                # id(RSpace) -> Inst
        self.counts = {}                # element -> number of executions (entry probe)
        self.fault_occ = {}
        self.last_stack = None          # stack snapshot at the innermost raise
        self.last_exc = None
        self.lines = []                 # current source line of each executing frame (parallel to stack)
        self.handled = 0
        self.load_inputs()

    # ---- instances -------------------------------------------------------
    def sinst(self, space):
        i = self.static.get(id(space))
        if i is None:
            parent = space.parent if isinstance(space.parent, rm.RModel) else self.sinst(space.parent)
            i = Inst(space, parent=parent, name=space.name)
            self.static[id(space)] = i
        return i

    def load_inputs(self):
        for s in self.m.all_spaces():
            for (cn, args), v in s.inputs.items():
                el = (s.path(), cn, tuple(args))
                self.memo[el] = v
                self.inputs.add(el)

    def child(self, inst, name):
        """Child space instance by name (static child, or replicated child in a dynamic tree)."""
        cs = inst.base.spaces.get(name)
        if cs is None:
            return None
        if not inst.is_dynamic:
            return self.sinst(cs)
        c = inst.children.get(name)
        if c is None:
            c = Inst(cs, parent=inst, root=inst.root, name=name)
            inst.children[name] = c
        return c

    # ---- namespace -------------------------------------------------------
    def allargs(self, inst):
        out = []
        i = inst
        while isinstance(i, Inst) and i.is_dynamic:
            if i.args is not None:
                out.append(i.args)
            i = i.parent
        return out

    def lookup(self, inst, name):
        """Resolve `name` in the namespace of `inst`.

        Returns (kind, payload): ("cells", (definer, RCells)), ("val", value, refowner|None),
        ("space", Inst), ("model", RModel), ("builtin", fn) or raises NameError-like KeyError.
        """
        b = inst.base
        dc = rm.derived_cells(b)
        if name in dc:
            return ("cells", dc[name])
        if inst.is_dynamic:
            for a in self.allargs(inst):
                if name in a:
                    return ("val", a[name], ("arg", inst.path(), name))
            if name in inst.xrefs:
                return ("val", inst.xrefs[name], ("xref", inst.path(), name))
        if not inst.is_dynamic or True:
            pass
        if name in ("_self", "_space"):
            return ("space", inst)
        if name == "_model":
            return ("model", self.m)
        dr = rm.derived_refs(b)
        if not inst.is_dynamic:
            if name in dr:
                definer, r = dr[name]
                return self._refval(r, definer, b, inst, name)
        else:
            if name in dr:
                definer, r = dr[name]
                return self._dynrefval(r, definer, inst, name)
        if name in self.m.refs:
            r = self.m.refs[name]
            return self._objkind(r.value, ("ref", "", name))
        ch = self.child(inst, name)
        if ch is not None:
            return ("space", ch)
        if name in BUILTINS:
            return ("builtin", BUILTINS[name])
        raise EvalRaise("NameError", name)

    def _plain(self, v):
        return v

    def _objkind(self, v, owner):
        if isinstance(v, tuple) and v and v[0] == "cells-of":
            return ("cellsobj", (v[1], v[2]), owner)
        if isinstance(v, rm.RSpace):
            return ("space", self.sinst(v), owner)
        if isinstance(v, rm.RCells):
            return ("cellsobj", (v.space, v.name), owner)
        return ("val", v, owner)

    def _refval(self, r, definer, deriver, inst, name):
        owner = ("ref", deriver.path(), name)
        v2, is_rel, known = rm.rebind(r.value, definer, deriver, r.mode or "auto")
        if not known:
            raise EvalUnknown("object reference to a descendant of its definer, seen from a deriving space")
        return self._objkind(v2, owner)

    def _dynrefval(self, r, definer, inst, name):
        """Reference of the dynamic base seen from a node of a dynamic tree."""
        base = inst.base
        owner = ("ref", inst.path(), name)
        v2, is_rel, known = rm.rebind(r.value, definer, base, r.mode or "auto")
        if not known:
            raise EvalUnknown("object reference to a descendant of its definer, seen from a dynamic space")
        kind = self._objkind(v2, owner)
        if kind[0] in ("space", "cellsobj") and is_rel:
            root = inst.root
            rootbase = root.base
            tspace = kind[1].base if kind[0] == "space" else kind[1][0]
            if tspace.is_in(rootbase):
                dyn = self._dyn_corresponding(root, rootbase, tspace)
                if kind[0] == "space":
                    return ("space", dyn, owner)
                return ("dyncells", (dyn, kind[1][1]), owner)
            if (r.mode or "auto") == "relative":
                raise EvalUnknown("relative reference leaving the dynamic tree")
        return kind

    def _dyn_corresponding(self, root, rootbase, tgt):
        rel = []
        p = tgt
        while p is not rootbase:
            rel.append(p.name)
            p = p.parent
        cur = root
        for n in reversed(rel):
            cur = self.child(cur, n)
        return cur

    # ---- probe / faults --------------------------------------------------
    def probe(self, inst, name, pt, args):
        site = (inst.path(), name, pt, tuple(_freeze(a) for a in args))
        self.log.append(site)
        if pt == 0:
            el = (site[0], name, site[3])
            self.counts[el] = self.counts.get(el, 0) + 1
        if self.plan is not None:
            exc = self.plan.check(site)
            if exc:
                ex = EvalRaise(exc, "injected", catchable=exc not in ("KeyboardInterrupt",))
                ex.fired_index = len(self.plan.fired) - 1       # which of the injected objects this one is
                raise ex

    # ---- element evaluation ----------------------------------------------
    def bind(self, params, args, kwargs=None):
        kwargs = kwargs or {}
        names = [p for p, _ in params]
        if len(args) > len(params):
            raise EvalRaise("TypeError", "too many args")
        vals = OrderedDict()
        for i, a in enumerate(args):
            vals[names[i]] = a
        for k, v in kwargs.items():
            if k not in names or k in vals:
                raise EvalRaise("TypeError", "bad kw")
            vals[k] = v
        out = []
        for p, d in params:
            if p in vals:
                out.append(vals[p])
            elif d is not None:
                out.append(d)
            else:
                raise EvalRaise("TypeError", "missing arg")
        return tuple(out)

    def allow_none(self, inst, cells):
        if cells.allow_none is not None:
            return cells.allow_none
        i = inst
        while isinstance(i, Inst):
            # dynamic spaces do not copy allow_none; static spaces carry their own
            if not i.is_dynamic and i.base.allow_none is not None:
                return i.base.allow_none
            i = i.parent
        return self.m.allow_none

    def nearest_cached(self):
        for el, cached in reversed(self.stack):
            if cached:
                return el
        return None

    def call_cells(self, inst, definer_cells, args, kwargs=None):
        definer, c = definer_cells
        f = c.formula
        params = f["params"] if f else []
        key = self.bind(params, args, kwargs)
        el = (inst.path(), c.name, key)
        if c.is_cached:
            try:
                hash(key)
            except TypeError:
                raise EvalRaise("TypeError", "unhashable")
            if el in self.memo:
                caller = self.nearest_cached()
                if caller is not None:
                    self.edges.setdefault(caller, set()).add(el)
                return self.memo[el]
        if self.maxdepth is not None and len(self.stack) > self.maxdepth:
            ex = EvalRaise("DeepReferenceError", "depth")
            ex.stack = self.snapshot()
            ex.noline = True
            raise ex
        self.stack.append((el, c.is_cached))
        self.lines.append(1)
        try:
            if f is None:
                val = None
            else:
                val = self.run_formula(inst, getattr(c, "pname", c.name), f, key)
            if val is None and not self.allow_none(inst, c):
                # (cached or not: an uncached cells is refused None like a cached one)
                ex = EvalRaise("NoneReturnedError", "none")
                ex.noline = True
                raise ex
        except BaseException as ex:
            if isinstance(ex, EvalRaise) and getattr(ex, "stack", None) is None:
                ex.stack = self.snapshot()
            self.stack.pop()
            self.lines.pop()
            self.edges.pop(el, None)
            self.attrreads.pop(el, None)
            self.attrpass.pop(el, None)
            raise
        self.stack.pop()
        self.lines.pop()
        caller = self.nearest_cached()
        if c.is_cached:
            self.memo[el] = val
            self.edges.setdefault(el, set())
            if caller is not None:
                self.edges.setdefault(caller, set()).add(el)
        else:
            if caller is not None:
                self.edges.setdefault(caller, set()).add(("obj", el[0], el[1]))
                # callees of the uncached cells pass through to the cached caller
                for callee in self.edges.pop(el, set()):
                    self.edges[caller].add(callee)
                # references it read by attribute are handed on as well (needed for invalidation)
                for ref in self.attrreads.pop(el, set()) | self.attrpass.pop(el, set()):
                    self.attrpass.setdefault(caller, set()).add(ref)
            else:
                self.edges.pop(el, None)
                self.attrreads.pop(el, None)
                self.attrpass.pop(el, None)
        return val

    def run_formula(self, inst, name, f, key):
        env = {p: v for (p, _), v in zip(f["params"], key)}
        lm = line_map(name, f)
        if not f.get("noprobe"):
            self.lines[-1] = lm["probe"][0]
            self.probe(inst, name, 0, key)
        pt = 0
        for i, let in enumerate(f.get("lets", []) if f["style"] == "def" else []):
            pt += 1
            self.lines[-1] = lm["let"][i]
            if let[0] == "try":
                _, var, e, h = let
                try:
                    env[var] = self.ev(inst, e, env)
                except EvalRaise as ex:
                    if not ex.catchable:
                        raise
                    self.handled += 1
                    self.lines[-1] = lm["let_handler_%d" % i]
                    env[var] = self.ev(inst, h, env)
            elif let[0] == "guard":
                _, var, e, side, mode = let

                def cleanup():
                    self.lines[-1] = lm["let_handler_%d" % i]
                    try:
                        self.ev(inst, side, env)
                    except EvalRaise as ex2:
                        if not ex2.catchable:
                            raise           # replaces whatever was on its way out
                        self.handled += 1
                        self.guarded = getattr(self, "guarded", 0) + 1
                try:
                    env[var] = self.ev(inst, e, env)
                except EvalRaise as ex:
                    if getattr(ex, "stack", None) is None:
                        ex.stack = self.snapshot()      # raised in this frame, on the line of the assignment
                    if mode == "finally" or ex.catchable:
                        cleanup()
                    raise
                if mode == "finally":
                    cleanup()
                    self.lines[-1] = lm["let"][i]
            else:
                var, e = let
                env[var] = self.ev(inst, e, env)
            if not f.get("noprobe"):
                self.lines[-1] = lm["probe"][pt]
                self.probe(inst, name, pt, key)
        self.lines[-1] = lm["ret"]
        val = self.ev(inst, f["ret"], env)
        if f.get("rfilter") and self.plan is not None:
            if self.plan.check_none((inst.path(), name, tuple(key))):
                val = None
        return val

    def snapshot(self):
        return [(el, ln) for (el, cached), ln in zip(self.stack, self.lines)]

    def get_item(self, inst, args, kwargs=None):
        """inst[args] / inst(args): create or fetch the ItemSpace."""
        sf = inst.base.formula
        if sf is None:
            # a space without a parameter formula: modelx fails on formula.signature of None
            raise EvalRaise("AttributeError", "no formula")
        key = self.bind(sf["params"], args, kwargs)
        try:
            hash(key)
        except TypeError:
            raise EvalRaise("TypeError", "unhashable")
        it = inst.items.get(key)
        el = (inst.path(), None, key)
        if it is not None and not it.dead:
            caller = self.nearest_cached()
            if caller is not None:
                self.edges.setdefault(caller, set()).add(el)
            return it
        if self.maxdepth is not None and len(self.stack) > self.maxdepth:
            raise EvalRaise("DeepReferenceError", "depth")
        self.stack.append((el, True))
        self.lines.append(1)
        try:
            env = {p: v for (p, _), v in zip(sf["params"], key)}
            if sf.get("probe"):
                self.probe(inst, "_formula", 0, key)
            if sf.get("pre") is not None:
                self.ev(inst, sf["pre"], env)
            ret = sf.get("ret")
            xrefs = {}
            base = inst.base
            if ret is not None:
                if "refs" in ret:
                    for k, e in ret["refs"].items():
                        xrefs[k] = self.ev(inst, e, env)
                elif "base" in ret:
                    base = self.m.space(ret["base"])
                    if base is None:
                        raise EvalRaise("AttributeError", "no base")
        except BaseException as ex:
            if isinstance(ex, EvalRaise) and getattr(ex, "stack", None) is None:
                ex.stack = self.snapshot()
            self.stack.pop()
            self.lines.pop()
            self.edges.pop(el, None)
            raise
        self.stack.pop()
        self.lines.pop()
        args_od = OrderedDict((p, v) for (p, _), v in zip(sf["params"], key))
        it = Inst(base, parent=inst, args=args_od, xrefs=xrefs, key=key)
        it.root = it
        inst.items[key] = it
        self.edges.setdefault(el, set())
        caller = self.nearest_cached()
        if caller is not None:
            self.edges.setdefault(caller, set()).add(el)
        return it

    # ---- expressions -----------------------------------------------------
    def ev(self, inst, e, env):
        k = e[0]
        if k == "c":
            return e[1]
        if k == "p":
            return env[e[1]]
        if k == "n":
            if e[1] in env:
                return env[e[1]]
            r = self.lookup(inst, e[1])
            if r[0] == "val":
                return r[1]
            return ("object", r)
        if k == "a":
            recv = self.ev_path(inst, e[1], env)
            return self.getattr_value(recv, e[2])
        if k == "call":
            return self.ev_call(inst, e, env)
        if k == "bin":
            a = self.ev(inst, e[2], env)
            b = self.ev(inst, e[3], env)
            return self.binop(e[1], a, b)
        if k == "cmp":
            a = self.ev(inst, e[2], env)
            b = self.ev(inst, e[3], env)
            for v in (a, b):
                if isinstance(v, tuple) and v and v[0] in ("object", "fn"):
                    raise EvalUnknown("comparison with an object")
            if e[1] == "==":
                return a == b            # equality never raises for the values of this grammar
            self._nums(a, b)
            return {"<": a < b, "<=": a <= b, ">": a > b}[e[1]]
        if k == "if":
            return self.ev(inst, e[2], env) if self.ev(inst, e[1], env) else self.ev(inst, e[3], env)
        if k == "bi":
            fn = self.lookup(inst, e[1]) if e[1] not in env else ("val", env[e[1]])
            args = [self.ev(inst, a, env) for a in e[2]]
            return self.apply_fn(fn, args)
        if k == "sum":
            _, var, n, body, form = e
            fn = self.lookup(inst, "sum")
            rng = self.lookup(inst, "range") if False else None
            vals = []
            for i in range(n):
                env2 = dict(env)
                env2[var] = i
                vals.append(self.ev(inst, body, env2))
            return self.apply_fn(fn, [vals])
        if k == "lst":
            return [self.ev(inst, a, env) for a in e[1]]
        if k == "nested":
            v = self.ev(inst, e[3], env)
            env2 = dict(env)
            env2[e[1]] = v
            return self.ev(inst, e[2], env2)
        raise ValueError(k)

    def _nums(self, *vals):
        for v in vals:
            if not isinstance(v, (int, float)) or isinstance(v, bool) and False:
                raise EvalRaise("TypeError", "operand")

    def binop(self, op, a, b):
        for v in (a, b):
            if isinstance(v, tuple) and v and v[0] in ("object", "fn"):
                raise EvalUnknown("arithmetic with an object")
        if isinstance(a, list) or isinstance(b, list) or isinstance(a, tuple) or isinstance(b, tuple) \
                or a is None or b is None or isinstance(a, str) or isinstance(b, str):
            raise EvalRaise("TypeError", "operand")
        if op == "+":
            return a + b
        if op == "-":
            return a - b
        if op == "*":
            return a * b
        if op == "//":
            if b == 0:
                raise EvalRaise("ZeroDivisionError", "div")
            return a // b
        raise ValueError(op)

    def apply_fn(self, fn, args):
        for v in args:
            if isinstance(v, tuple) and v and v[0] in ("object", "fn"):
                raise EvalUnknown("object passed to a function")
            if isinstance(v, list) and any(isinstance(x, tuple) for x in v):
                raise EvalUnknown("object passed to a function")
        if fn[0] == "builtin":
            try:
                return fn[1](*args)
            except TypeError:
                raise EvalRaise("TypeError", "builtin")
            except ValueError:
                raise EvalRaise("ValueError", "builtin")
        if fn[0] == "val":
            v = fn[1]
            if isinstance(v, tuple) and v and v[0] == "fn":
                from . import probe
                try:
                    return getattr(probe, v[1])(*args)
                except TypeError:
                    raise EvalRaise("TypeError", "fn")
            raise EvalRaise("TypeError", "not callable")
        raise EvalRaise("TypeError", "not callable")

    def ev_path(self, inst, path, env):
        """Evaluate a receiver path to an Inst or the RModel."""
        cur = None
        for idx, seg in enumerate(path):
            if isinstance(seg, str):
                if idx == 0:
                    r = self.lookup(inst, seg)
                    cur = self._as_recv(r)
                elif seg == "parent":
                    cur = cur.parent if isinstance(cur, Inst) else None
                    if cur is None:
                        raise EvalRaise("AttributeError", "parent of model")
                else:
                    cur = self._as_recv(self.getattr_raw(cur, seg))
            else:
                _, args, spell = seg
                vals = [self.ev(inst, a, env) for a in args]
                if not isinstance(cur, Inst):
                    raise EvalRaise("TypeError", "model not subscriptable")
                cur = self.get_item(cur, vals)
        return cur

    def _as_recv(self, r):
        if r[0] == "space":
            return r[1]
        if r[0] == "model":
            return r[1]
        raise EvalRaise("AttributeError", "not a space: %r" % (r[0],))

    def getattr_raw(self, recv, name):
        """recv.name through the public attribute protocol of spaces and models."""
        if isinstance(recv, rm.RModel):
            if name in recv.spaces:
                return ("space", self.sinst(recv.spaces[name]))
            if name in recv.refs:
                self._note_attrread(("", name))
                return self._objkind(recv.refs[name].value, ("ref", "", name))
            raise EvalRaise("AttributeError", name)
        try:
            r = self.lookup(recv, name)
        except EvalRaise as ex:
            raise EvalRaise("AttributeError", name)
        if r[0] == "builtin":
            raise EvalRaise("AttributeError", name)
        if len(r) > 2 and r[2] is not None and r[2][0] == "ref":
            owner = r[2]
            # a model-level reference reached through a space is that model reference
            if owner[1] != "" and name not in rm.derived_refs(recv.base) and name in self.m.refs:
                owner = ("ref", "", name)
            self._note_attrread((owner[1], name))
        elif len(r) > 2 and r[2] is not None and r[2][0] in ("arg", "xref"):
            self._note_attrread((r[2][1], name))
        return r

    def _note_attrread(self, ref):
        if self.stack:
            el = self.stack[-1][0]
            self.attrreads.setdefault(el, set()).add(ref)

    def getattr_value(self, recv, name):
        r = self.getattr_raw(recv, name)
        if r[0] == "val":
            return r[1]
        return ("object", r)

    def ev_call(self, inst, e, env):
        _, recv, name, args, spell = e[:5]
        pnames = e[5] if len(e) > 5 else None
        if recv:
            target = self.ev_path(inst, recv, env)
            r = self.getattr_raw(target, name)
            tinst = target
        else:
            if name in env:
                raise EvalRaise("TypeError", "local not callable")
            r = self.lookup(inst, name)
            tinst = inst
        vals = [self.ev(inst, a, env) for a in args]
        kwargs = None
        if spell == "kw" and pnames:
            kwargs = OrderedDict(zip(pnames, vals))
            vals = []
        if r[0] == "cells":
            if not isinstance(tinst, Inst):
                raise EvalRaise("AttributeError", name)
            if not recv and spell == "idx":
                # inside formulas sibling cells are bound as plain callables: subscription is a TypeError
                raise EvalRaise("TypeError", "method not subscriptable")
            return self.call_cells(tinst, r[1], vals, kwargs)
        if r[0] == "cellsobj":
            sp, cname = r[1]
            dc = rm.derived_cells(sp).get(cname)
            if dc is None or sp.deleted:
                raise EvalRaise("DeletedObjectError", cname)
            return self.call_cells(self.sinst(sp), dc, vals, kwargs)
        if r[0] == "dyncells":
            dinst, cname = r[1]
            dc = rm.derived_cells(dinst.base).get(cname)
            return self.call_cells(dinst, dc, vals, kwargs)
        if spell == "idx":
            raise EvalRaise("TypeError", "not subscriptable")
        return self.apply_fn(r, vals)

    # ---- top-level -------------------------------------------------------
    def top_call(self, space_path, cname, args, kwargs=None, items=()):
        """Evaluate cells `cname` of the (static or item) space like a top-level user call.

        items: list of item argument tuples leading from the static space, e.g. [("",(1,))].
        Returns ("val", v) or ("exc", class name).
        """
        self.stack = []
        self.lines = []
        self.last_stack = None
        self.last_exc = None
        try:
            inst = self.resolve_inst(space_path)
            dc = rm.derived_cells(inst.base).get(cname)
            if dc is None:
                return ("exc", "AttributeError")
            v = self.call_cells(inst, dc, list(args), kwargs)
            return ("val", v)
        except EvalRaise as ex:
            self.stack = []
            self.lines = []
            self.last_exc = ex
            self.last_stack = getattr(ex, "stack", None)
            return ("exc", ex.cls)
        except EvalUnknown:
            self.stack = []
            self.poisoned = True
            return ("unknown", None)

    def resolve_inst(self, loc):
        """loc: list of segments: names and ["item", [values]]."""
        cur = None
        for seg in loc:
            if isinstance(seg, str):
                if cur is None:
                    sp = self.m.spaces.get(seg)
                    if sp is None:
                        raise EvalRaise("AttributeError", seg)
                    cur = self.sinst(sp)
                else:
                    nxt = self.child(cur, seg)
                    if nxt is None:
                        raise EvalRaise("AttributeError", seg)
                    cur = nxt
            else:
                cur = self.get_item(cur, list(seg[1]))
        return cur

    # ---- cache operations mirrored from the contract ----------------------
    def dependents(self, el):
        """Held elements computed directly or transitively from el (excluding el)."""
        rev = {}
        for caller, callees in self.edges.items():
            for c in callees:
                rev.setdefault(c, set()).add(caller)
        out = set()
        todo = [el]
        while todo:
            x = todo.pop()
            for y in rev.get(x, ()):
                if y not in out:
                    out.add(y)
                    todo.append(y)
        return out

    def drop(self, el):
        self.attrpass.pop(el, None)
        self.memo.pop(el, None)
        self.inputs.discard(el)
        self.edges.pop(el, None)
        self.attrreads.pop(el, None)
        for callees in self.edges.values():
            callees.discard(el)
        if el[1] is None:
            # an ItemSpace element: discard the instance and everything held inside it
            prefix = el[0] + "[" + ", ".join(repr(a) for a in el[2]) + "]"
            for other in [o for o in list(self.memo) if o[0] == prefix or o[0].startswith(prefix + ".") or o[0].startswith(prefix + "[")]:
                self.drop(other)
            self._kill_inst(el)

    def _kill_inst(self, el):
        for inst in list(self.static.values()):
            self._kill_in(inst, el)

    def _kill_in(self, inst, el):
        if inst.path() == el[0]:
            it = inst.items.pop(el[2], None)
            if it is not None:
                it.dead = True
        for it in list(inst.items.values()):
            self._kill_in(it, el)
        for ch in list(inst.children.values()):
            self._kill_in(ch, el)

    def clear_with_dependents(self, el):
        for d in self.dependents(el) | {el}:
            self.drop(d)
