"""Reusable history runner: one Machine, a recorded step list, pluggable oracles.

Oracles get before(op) / after(op, out) / checkpoint(op) callbacks and raise Violation.
Pseudo-steps ({"op": "checkpoint"}, {"op": "hostile", ...}) are recorded in the step list so that a
replay performs exactly the same checks at the same places.
"""
import modelx as mx
from .props.base import Violation
from . import machine, gen, refmodel as rm, refops, probe
from .world import World


class Run:
    def __init__(self, ctx, cfg, oracles, name="M"):
        self.ctx = ctx
        self.cfg = cfg
        mx.set_recalc(bool(cfg.get("recalc")))
        # edits (renames, formula changes) can turn a terminating recursion into an endless one, which modelx rightly ends with
        # its depth error - after 100 000 frames by default (16 s a time); generated chains are a few elements long
        mx.set_recursion(int(cfg.get("recursion_limit", 400)))
        self.mach = machine.Machine(ctx.seed, cfg, name=name)
        self.oracles = oracles
        self.queries = []
        self.qkeys = set()
        for o in oracles:
            o.run = self
            o.mach = self.mach
            o.ctx = ctx
            o.start()

    # ---- driving ---------------------------------------------------------
    def generate(self, weights, n_steps, p_check, build=True):
        cfg = self.cfg
        mach = self.mach
        if build:
            mach.build(cfg["n_spaces"], cfg["n_cells"], cfg["n_refs"], do=self.step)
        for i in range(n_steps):
            op = None
            for o in self.oracles:
                op = o.propose()
                if op is not None:
                    break
            if op is None:
                op = mach.next_op(weights)
            self.step(op)
            if mach.sched.random() < p_check:
                self.step({"op": "checkpoint", "extra": self.extra_queries(2)})
        self.step({"op": "checkpoint", "extra": self.extra_queries(4), "final": True})

    def replay(self, steps):
        for op in steps:
            self.step(op)
        if not steps or steps[-1].get("op") != "checkpoint":
            self.step({"op": "checkpoint", "extra": [], "final": True}, record=False)

    def step(self, op, record=True):
        if record:
            self.ctx.steps.append(op)
        if op["op"] == "checkpoint":
            for o in self.oracles:
                o.checkpoint(op)
            return None
        for o in self.oracles:
            if o.owns(op):
                self.mach.events.append("own " + op["op"])
                return o.do(op)
        for o in self.oracles:
            o.before(op)
        out = self.mach.do(op, record=False)
        self.mach.steps.append(op)
        if op["op"] == "eval" and out["st"] != "skip":
            k = qkey(op)
            if k not in self.qkeys:
                self.qkeys.add(k)
                self.queries.append(op)
        for o in self.oracles:
            o.after(op, out)
        return out

    def extra_queries(self, n):
        out = []
        for _ in range(n):
            op = self.mach.g_eval()
            if op:
                out.append(op)
        return out

    def finish(self):
        ctx = self.ctx
        mach = self.mach
        ctx.events = mach.events
        ctx.nsteps = len(mach.steps)
        ctx.stats["ops"] = mach.stats["ops"]
        ctx.stats["rejected"] = mach.stats["rejected"]
        ctx.count("edit_rejected", sum(mach.stats["rejected"].values()), "reach")
        ctx.count("skipped", mach.stats["skipped"], "reach")


class Oracle:
    def start(self):
        pass

    def owns(self, op):
        return False

    def do(self, op):
        pass

    def propose(self):
        return None

    def before(self, op):
        pass

    def after(self, op, out):
        pass

    def checkpoint(self, op):
        pass


def qkey(op):
    return repr((op["loc"], op["name"], op["args"]))


def eval_target_exists(ref, q):
    cur = ref
    for seg in q["loc"]:
        if isinstance(seg, str):
            cur = cur.spaces.get(seg) if cur is not None else None
            if cur is None:
                return False
        else:
            if cur.formula is None:
                return False
            need = [p for p, d in cur.formula["params"] if d is None]
            if not (len(need) <= len(seg[1]) <= len(cur.formula["params"])):
                return False
            ret = cur.formula.get("ret")
            if ret and "base" in ret:
                cur = ref.space(ret["base"])
                if cur is None:
                    return False
    try:
        return q["name"] in rm.derived_cells(cur)
    except rm.NoMRO:
        return False


def build_twin(edits, name):
    tw = World(name)
    for e in edits:
        out = tw.apply(e)
        if out["st"] != "ok":
            return tw, dict(e, twin_outcome=out)
    return tw, None


def same(a, b):
    """The statement is about *values the model returns*: an answer that raises on both sides returns no
    value on either, so only value-vs-value and value-vs-exception disagreements count."""
    if a["st"] != "ok" and b["st"] != "ok":
        return True
    if a["st"] != b["st"]:
        return False
    if a["st"] == "ok":
        return a["val"] == b["val"]
    return a.get("exc") == b.get("exc")


def short(o):
    return o.get("val") if o["st"] == "ok" else "!" + str(o.get("exc"))


def short_kind(o):
    return "val" if o["st"] == "ok" else "exc:" + str(o.get("exc"))


class TwinOracle(Oracle):
    """Fresh-twin: live model vs a model rebuilt from the accepted edits only."""

    def __init__(self, prefix):
        self.prefix = prefix
        self.held_at = {}

    def after(self, op, out):
        if op["op"] == "eval" and out["st"] == "ok":
            k = qkey(op)
            prev = self.held_at.get(k)
            if prev is not None and prev < len(self.mach.edits):
                self.ctx.count("stale_candidate_rerequested", 1, "reach")
                self.ctx.nontrivial = True
            self.held_at[k] = len(self.mach.edits)

    def checkpoint(self, op):
        mach = self.mach
        qs = list(self.run.queries) + list(op.get("extra") or [])
        if not qs:
            return
        self.ctx.count("twin_checks", 1, "reach")
        tw, bad = build_twin(mach.edits, "T")
        try:
            if bad is not None:
                raise Violation(self.prefix + "/twin-rejects-edit/" + bad["op"], {"edit": bad})
            for q in qs:
                if not eval_target_exists(mach.ref, q):
                    continue
                probe.arm(None)
                live = mach.world.apply(q)
                twv = tw.apply(q)
                self.ctx.count("twin_queries", 1, "reach")
                self.after(q, live)
                mach.events.append("cp %s live=%s twin=%s" % (qkey(q), short(live), short(twv)))
                if not same(live, twv):
                    sig, culprit = self.blame(q, live, twv)
                    raise Violation(sig, {"query": q, "live": live, "twin": twv, "culprit": culprit})
        finally:
            try:
                tw.m.close()
            except Exception:
                pass

    def blame(self, q, live, twv):
        """First step after which the mismatch is observable; classify that edit."""
        steps = [s for s in self.mach.steps if s["op"] not in ("checkpoint",)]
        kind = "%s!=%s" % (short_kind(live), short_kind(twv))
        culprit = None
        try:
            for j in range(1, len(steps) + 1):
                if steps[j - 1]["op"] in ("eval", "gc"):
                    continue
                mm, last = mismatch_after(self.mach.seed, self.mach.cfg, steps[:j], q, j)
                if mm:
                    culprit = steps[j - 1]
                    if last is not None and last.get("st") == "rej":
                        return "%s/rejected-edit-changed-answers/%s" % (self.prefix, classify_edit(culprit)), culprit
                    break
        except Exception:
            culprit = None
        via = self.via(culprit, steps, live, twv)
        if culprit is None:
            return "%s/stale/via=%s/edit=?/%s" % (self.prefix, via, kind), None
        return "%s/stale/via=%s/edit=%s/%s" % (self.prefix, via, classify_edit(culprit), kind), culprit

    def via(self, culprit, steps, live, twv):
        """A structural feature of the history that names the dependency path the stale value went through
        (used to keep known findings narrow)."""
        def mentions_model_path(name):
            found = []

            def walk(e):
                if isinstance(e, list):
                    if len(e) >= 3 and e[0] in ("a", "call") and isinstance(e[1], list) and len(e[1]) >= 2 \
                            and e[1][0] == "_model" and e[1][1] == name:
                        found.append(1)
                    for x in e:
                        walk(x)
                elif isinstance(e, dict):
                    for x in e.values():
                        walk(x)
            for s in steps:
                if s.get("formula") and isinstance(s["formula"], dict):
                    walk(s["formula"].get("ret"))
                    walk(s["formula"].get("lets"))
            return bool(found)
        if culprit is not None and culprit["op"] in ("rename_space", "del_space"):
            top = culprit["space"].split(".")[0]
            if mentions_model_path(top):
                return "model-attr-path-to-space"
        if "DeletedObjectError" in (live.get("exc"), twv.get("exc")):
            if any(s["op"] == "set_ref" and s.get("value", {}).get("t") == "obj" for s in steps):
                return "dangling-object-reference"
        return "other"


def classify_edit(op):
    k = op["op"]
    if k == "set_ref":
        return "set_ref:%s:%s:%s" % ("model" if not op.get("space") else "space", op["value"]["t"], op.get("mode") or "plain")
    return k


def mismatch_after(seed, cfg, steps, q, tag):
    m2 = machine.Machine(seed, cfg, name="B%d" % tag)
    try:
        last = None
        for s in steps:
            if s["op"] in ("hostile",):
                continue
            last = m2.do(s, record=False)
        tw = build_twin(m2.edits, "BT%d" % tag)
        if tw[1] is not None:
            tw[0].m.close()
            return False, last
        try:
            if not eval_target_exists(m2.ref, q):
                return False, last
            a = m2.world.apply(q)
            b = tw[0].apply(q)
            return (not same(a, b)), last
        finally:
            tw[0].m.close()
    finally:
        m2.world.m.close()
