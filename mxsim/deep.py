"""Deep call chains against the formula recursion limit (part of C05).

A chain of n+1 elements f(n) -> f(n-1) -> ... -> f(0) is requested under a configured limit L:
  * n + 1 < L  : must evaluate (to n) without crashing the interpreter;
  * n + 1 > L  : if it raises, it must raise FormulaError wrapping DeepReferenceError (the bare error when formula errors
                 are off), leave no element of the failing chain with a value, keep what was held before, leave nothing
                 marked executing (modelx allows L + 1 frames; where exactly the error starts is not judged);
  * afterwards every evaluation must give the same values as if the failure had not happened (the same request succeeds
    once a prefix of the chain is held).
A request over the limit that evaluates must still return the right value.
"""
import modelx as mx
from modelx.core.errors import FormulaError, DeepReferenceError
from .props.base import Violation
from .world import left_executing

SHAPES = {
    # name -> list of (cells name, source, cached)
    "self_def": [("f", "def f(x):\n    if x <= 0:\n        return 0\n    return f(x - 1) + 1", True)],
    "self_lambda": [("f", "lambda x: 0 if x <= 0 else f(x - 1) + 1", True)],
    "mutual": [("f", "lambda x: 0 if x <= 0 else g(x - 1) + 1", True),
               ("g", "lambda x: 0 if x <= 0 else f(x - 1) + 1", True)],
    "through_uncached": [("f", "lambda x: 0 if x <= 0 else g(x - 1) + 1", True),
                         ("g", "lambda x: 0 if x <= 0 else f(x - 1) + 1", False)],
    "all_uncached_but_top": [("f", "lambda x: 0 if x <= 0 else g(x - 1) + 1", True),
                             ("g", "lambda x: 0 if x <= 0 else g(x - 1) + 1", False)],
    "via_attr": [("f", "lambda x: 0 if x <= 0 else _space.f(x - 1) + 1", True)],
    "comprehension": [("f", "lambda x: 0 if x <= 0 else sum([f(x - 1) for t in range(1)]) + 1", True)],
    "genexp": [("f", "lambda x: 0 if x <= 0 else sum(f(x - 1) for t in range(1)) + 1", True)],
}

# Shapes in which every level of the chain re-enters the interpreter from C (a Python __getattr__, a generator driven by
# a built-in).  CPython 3.12 caps that kind of nesting with a compile-time constant that sys.setrecursionlimit does not
# move (about 500 levels of the first shape and 750 of the second on 3.12.1): past it the interpreter itself raises
# RecursionError, inside modelx's code or the formula, whatever limit modelx was given.  That is an exception raised at
# an arbitrary depth like any other - everything the statement says about a failed evaluation is judged - but it is not
# modelx's depth error and a chain stopped by it is not a chain modelx refused to evaluate.
C_NESTING = {"via_attr", "genexp"}
C_NESTING_FLOOR = 450


NEXT = {"self_def": {"f": "f"}, "self_lambda": {"f": "f"}, "mutual": {"f": "g", "g": "f"},
        "through_uncached": {"f": "g", "g": "f"}, "all_uncached_but_top": {"f": "g", "g": "g"}, "via_attr": {"f": "f"},
        "comprehension": {"f": "f"}, "genexp": {"f": "f"}}


def plan(rng, tier):
    shape = rng.choice(sorted(SHAPES))
    if tier == "thorough" and rng.random() < 0.06:
        # the shipped default limit: a chain well below it must not crash the interpreter, one above it must fail cleanly
        return [{"op": "deep_setup", "shape": rng.choice(["self_def", "self_lambda", "mutual"]), "limit": None, "formula_error": True},
                {"op": "deep_eval", "n": 60000}, {"op": "deep_eval", "n": 60000 + 100050}, {"op": "deep_eval", "n": 3}]
    L = rng.choice([25, 60, 150, 400] if tier == "quick" else [25, 60, 150, 400, 2000])
    over = rng.choice([0, 1, 3, 40])
    steps = [{"op": "deep_setup", "shape": shape, "limit": L, "formula_error": rng.random() < 0.8}]
    if rng.random() < 0.35:
        # the configured limit is a session setting: switching the stack trace on and off (which replaces the call stack
        # object) leaves it as configured
        steps.append({"op": "deep_trace_toggle"})
    seq = rng.choice(["fail_first", "short_first", "fail_twice", "climb"])
    if seq == "short_first":
        steps.append({"op": "deep_eval", "n": rng.choice([1, L // 2, L - 2])})
    steps.append({"op": "deep_eval", "n": L + over})
    if seq == "fail_twice":
        steps.append({"op": "deep_eval", "n": L + over + 5})
    steps.append({"op": "deep_eval", "n": L - 2})
    if seq == "climb":
        n = L - 2
        while n < L + over:
            n = min(n + L - 5, L + over)
            steps.append({"op": "deep_eval", "n": n})
    else:
        steps.append({"op": "deep_eval", "n": L + over})
    steps.append({"op": "deep_eval", "n": 3})
    return steps


def held(space, shape):
    out = {}
    for name, src, cached in SHAPES[shape]:
        out[name] = {(k if isinstance(k, tuple) else (k,)): v for k, v in dict(getattr(space, name)).items()}
    return out


def run(ctx, pid):
    steps = ctx.doc["steps"] if ctx.doc is not None else plan(ctx.rng("deep"), ctx.tier)
    ctx.steps = steps
    sysm = mx.core.mxsys
    default = mx.get_recursion()
    events = ctx.events
    try:
        m = space = None
        shape = None
        L = None
        for st in steps:
            if st["op"] == "deep_setup":
                shape, L = st["shape"], st["limit"]
                mx.use_formula_error(bool(st["formula_error"]))
                m = mx.new_model("Deep")
                space = m.new_space("A")
                for name, src, cached in SHAPES[shape]:
                    c = space.new_cells(name, formula=src)
                    if not cached:
                        c.is_cached = False
                if L is None:
                    L = default
                else:
                    mx.set_recursion(L)
                events.append("setup %s L=%d" % (shape, L))
                continue
            if st["op"] == "deep_trace_toggle":
                import warnings
                with warnings.catch_warnings():
                    warnings.simplefilter("ignore")
                    mx.start_stacktrace(maxlen=5)
                    if space is not None:
                        try:
                            space.f(2)
                        except Exception:
                            pass
                        for name, src, cached in SHAPES[shape]:
                            getattr(space, name).clear()
                    mx.stop_stacktrace()
                events.append("stack trace on and off; limit now %s" % mx.get_recursion())
                if L is not None and mx.get_recursion() != L:
                    raise Violation("%s/deep/configured-limit-lost/%s" % (pid, mx.get_recursion()), {"configured": L})
                continue
            if space is None:
                continue
            n = st["n"]
            before = held(space, shape)
            # elements that have to be on the stack at once: from the requested one down to the first held one (a hit is
            # answered without a frame) or to the bottom of the chain
            nxt = NEXT[shape]
            cached = {nm: c for nm, s_, c in SHAPES[shape]}
            name, d, chain = "f", n, 0
            while True:
                if cached[name] and (d,) in before[name]:
                    break
                chain += 1
                if d <= 0:
                    break
                name, d = nxt[name], d - 1
            try:
                v = space.f(n)
                outcome = ("ok", v)
            except FormulaError as e:
                outcome = ("exc", "FormulaError")
            except DeepReferenceError as e:
                outcome = ("exc", "DeepReferenceError")
            except RecursionError as e:
                outcome = ("exc", "RecursionError")
            events.append("f(%d) chain=%d limit=%d -> %s" % (n, chain, L, outcome[0] if outcome[0] == "exc" else outcome))
            ctx.count("deep_requests", 1, "reach")
            if left_executing():
                raise Violation("%s/deep/left-marked-executing" % pid, {"n": n, "limit": L, "shape": shape})
            after = held(space, shape)
            err = None
            if outcome[0] == "exc":
                err = m.get_error() if hasattr(m, "get_error") else mx.get_error()
            if (isinstance(err, RecursionError) and not isinstance(err, DeepReferenceError)
                    and shape in C_NESTING and chain > C_NESTING_FLOOR):
                # the interpreter's own cap, see C_NESTING
                ctx.count("interpreter_recursion_cap:RecursionError", 1, "faults_fired")
                ctx.nontrivial = True
                want_exc = "FormulaError" if steps[0].get("formula_error", True) else "RecursionError"
                if outcome[1] != want_exc:
                    raise Violation("%s/deep/wrong-error-type/%s" % (pid, outcome[1]), {"want": want_exc, "carried": "RecursionError"})
                if after != before:
                    gained = {name: sorted(set(after[name]) - set(before[name]))[:5] for name in after}
                    raise Violation("%s/deep/failing-chain-left-values" % pid, {"n": n, "limit": L, "shape": shape, "gained": repr(gained),
                                                                               "carried": "RecursionError"})
            elif chain < L:
                ctx.count("deep_below_limit", 1, "reach")
                if outcome != ("ok", n):
                    raise Violation("%s/deep/chain-below-limit-did-not-evaluate/%s" % (pid, outcome[1] if outcome[0] == "exc" else "value"),
                                    {"n": n, "limit": L, "shape": shape, "chain": chain, "outcome": repr(outcome)})
                for name, d in after.items():
                    for k, val in d.items():
                        if val != k[0]:
                            raise Violation("%s/deep/wrong-held-value" % pid, {"cells": name, "key": list(k), "value": val})
            elif chain > L and outcome[0] == "exc":
                # (where exactly above the limit the error starts is not part of the statement: only what a raised depth
                # error must leave behind is)
                ctx.count("deep_over_limit", 1, "reach")
                ctx.nontrivial = True
                want_exc = "FormulaError" if st.get("formula_error", steps[0].get("formula_error", True)) else "DeepReferenceError"
                if outcome[1] != want_exc:
                    raise Violation("%s/deep/wrong-error-type/%s" % (pid, outcome[1]), {"want": want_exc})
                if not isinstance(err, DeepReferenceError):
                    raise Violation("%s/deep/get_error-not-the-depth-error/%s" % (pid, type(err).__name__), {})
                if after != before:
                    gained = {name: sorted(set(after[name]) - set(before[name]))[:5] for name in after}
                    raise Violation("%s/deep/failing-chain-left-values" % pid, {"n": n, "limit": L, "shape": shape, "gained": repr(gained)})
            else:
                ctx.count("deep_at_limit_not_judged", 1, "reach")
                if outcome[0] == "ok" and outcome[1] != n:
                    raise Violation("%s/deep/wrong-value" % pid, {"n": n, "got": outcome[1]})
        ctx.nsteps = len(steps)
    finally:
        mx.set_recursion(default)
        mx.use_formula_error(True)
