import os, sys, argparse, importlib, gc, warnings


def main(argv, repo):
    ap = argparse.ArgumentParser(prog="check")
    ap.add_argument("prop")
    ap.add_argument("--tier", default=os.environ.get("VERIF_TIER", "quick"), choices=["quick", "thorough"])
    ap.add_argument("--replay")
    ap.add_argument("--seed", type=int, default=int(os.environ.get("VERIF_SEED", "0")))
    ap.add_argument("--lanes", type=int, default=int(os.environ.get("VERIF_LANES", "16")))
    ap.add_argument("--no-minimise", action="store_true")
    ap.add_argument("--strict", action="store_true", help="ignore known findings when replaying")
    ap.add_argument("--one", type=int, help="run a single index in-process (debugging)")
    args = ap.parse_args(argv)

    warnings.simplefilter("ignore")
    import modelx
    if not os.path.abspath(modelx.__file__).startswith(os.path.abspath(repo) + os.sep):
        print("HARNESS-ERROR modelx imported from %s, expected under %s" % (modelx.__file__, repo))
        return 3
    from modelx.core import base as _b
    if not getattr(_b, "_VERIF", False):
        print("HARNESS-ERROR hook H1 (MODELX_VERIF) is not active in %s" % _b.__file__)
        return 3
    warnings.showwarning = lambda *a, **k: None
    from . import kernel
    if args.prop == "selftest":
        from . import selftest
        return selftest.main(args)
    mod = importlib.import_module("mxsim.props." + args.prop.lower())
    prop = mod.PROP
    if args.one is not None:
        seed = kernel.run_seed(args.seed, prop.id, args.tier, args.one)
        res = prop.run_one(seed, args.tier, args.one)
        import json
        print(json.dumps({k: v for k, v in res.items() if k != "doc"}, indent=1, default=repr)[:6000])
        if res.get("doc") and not res.get("ok"):
            from . import kernel as K
            doc = dict(res["doc"], expect_sig=res["sig"])
            K.init_scratch()
            doc = K.minimise(prop, doc, res["sig"], nlanes=args.lanes)
            doc["detail"] = res.get("detail")
            os.makedirs(os.path.join(K.VERIF, "replays"), exist_ok=True)
            path = os.path.join(K.VERIF, "replays", "one-%s-%d.json" % (prop.id, args.one))
            json.dump(doc, open(path, "w"), indent=1, default=repr)
            print("minimised replay:", path)
        return 0 if res.get("ok") else 1
    gc.collect()
    gc.freeze()
    return kernel.check_main(prop, args)
