"""C09 demo 3: an uncached cells accepts an unhashable argument only as long as
nothing fails: when its formula (or a callee) raises, the error report hashes
the node and the user gets "TypeError: unhashable type: 'list'" instead of the
FormulaError that the same failure gives with a hashable argument;
printing mx.get_traceback() raises the same TypeError afterwards.

Run: cd /tmp/wth2_C09 && PYTHONPATH=/tmp/wth2_C09 /venv/bin/python FINDINGS/demo_3.py
"""
import modelx as mx
from modelx.core.errors import FormulaError

m = mx.new_model()
s = m.new_space("S")


@mx.defcells(space=s, is_cached=False)
def U(seq):
    return 100 // len(seq)


@mx.defcells(space=s)
def C(n):
    return U([1] * n)       # a list: legal for an uncached cells


assert s.U([1, 2]) == 50 and s.C(4) == 25     # unhashable arguments work ...


def outcome(cells, arg):
    try:
        return cells(arg)
    except Exception as e:
        return type(e).__name__ + ": " + str(e).split("\n")[1 if isinstance(e, FormulaError) else 0]


hashable = outcome(s.U, ())          # same failure, hashable argument
unhashable = outcome(s.U, [])        # ... until the formula fails
through_caller = outcome(s.C, 0)
print("U(())  ->", hashable)
print("U([])  ->", unhashable)
print("C(0)   ->", through_caller)

try:
    tb = repr(mx.get_traceback())
    tb_ok = True
except TypeError as e:
    tb_ok = False
    print("repr(mx.get_traceback()) ->", type(e).__name__, e)

# The property: uncached cells accept unhashable arguments, so the failure of
# the formula is reported the same way whatever the type of the argument.
assert unhashable.startswith("FormulaError") and "ZeroDivisionError" in unhashable, (
    "the ZeroDivisionError in U([]) is reported as %r (with a hashable "
    "argument: %r)" % (unhashable, hashable))
assert "ZeroDivisionError" in through_caller, through_caller
assert tb_ok
