"""C09 demo 2: redefining an existing cells with the documented decorators
``@mx.defcells(space=..., is_cached=...)`` / ``@mx.uncached`` changes neither
the formula nor the flag (it only discards the values): whether the new
formula takes effect depends on whether a cached flag was passed.

Run: cd /tmp/wth2_C09 && PYTHONPATH=/tmp/wth2_C09 /venv/bin/python FINDINGS/demo_2.py
"""
import modelx as mx

m = mx.new_model()
s = m.new_space("S")


@mx.defcells(space=s)
def foo(x):
    return x


@mx.defcells(space=s)
def caller(x):
    return foo(x) + 100


assert (s.foo(3), s.caller(3)) == (3, 103)

# (a) same flag as before, new formula -----------------------------------


@mx.defcells(space=s, is_cached=True)
def foo(x):
    return 10 * x


got_a = (s.foo(3), s.caller(3))
print("(a) after @defcells(space=s, is_cached=True) def foo(x): 10 * x ->",
      got_a)

# (b) documented (defcells, usage 2): "If the cells ... already exists in the
#     specified space, update its formula and is_cached property"


@mx.defcells(space=s, is_cached=False)
def foo(l):
    return 2 * sum(l)


got_b = (s.foo.is_cached, s.foo.parameters)
print("(b) after @defcells(space=s, is_cached=False) def foo(l)        ->",
      got_b)

# (c) mx.uncached: "Decorator to create or update an uncached cells"


@mx.uncached
def foo(l):
    return 2 * sum(l)


got_c = (s.foo.is_cached, s.foo.parameters)
print("(c) after @uncached def foo(l)                                  ->",
      got_c)

# The flag passed along with a redefinition must not change what the cells
# returns: the new formula applies whatever the flag is ...
assert got_a == (30, 130), (
    "redefinition with is_cached=True left the old formula in place: %r"
    % (got_a,))
# ... and a cells switched to uncached is uncached
assert s.foo.is_cached is False, (
    "foo was redefined with is_cached=False but is still cached")
assert s.foo([1, 2, 3]) == 12, (
    "an uncached cells accepts unhashable arguments and runs its new formula")
