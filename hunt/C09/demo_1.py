"""C09 demo 1: a formula that returns None is an error in a cached cells
but a plain value in an uncached cells, so the flag changes results.

Run: cd /tmp/wth2_C09 && PYTHONPATH=/tmp/wth2_C09 /venv/bin/python FINDINGS/demo_1.py
"""
import modelx as mx
from modelx.core.errors import FormulaError


def build(u_cached):
    m = mx.new_model()
    s = m.new_space("S")

    @mx.defcells(space=s)
    def U(x):
        return None if x > 0 else 0     # allow_none is not set anywhere

    @mx.defcells(space=s)
    def C(x):
        return 1 if U(x) is None else 2

    s.U.is_cached = u_cached
    return m


def outcome(cells, *args):
    try:
        return ("value", cells(*args))
    except FormulaError as e:
        return ("error", str(e).split("\n")[1].split(":")[0])


results = {}
for flag in (True, False):
    m = build(flag)
    results[flag] = (outcome(m.S.U, 1), outcome(m.S.C, 1))
    print("U.is_cached =", flag, "->  U(1):", results[flag][0],
          "  C(1):", results[flag][1])
    m.close()

# The property: switching U between cached and uncached changes no value
# (or error) that any cells returns.
assert results[True] == results[False], (
    "the cached flag of U changed the results: cached %r, uncached %r"
    % (results[True], results[False]))
