"""C09 demo 4: Cells.to_series(*args) / Cells.to_frame(*args) / Space.to_frame(*args)
return the values for the given arguments when the cells is cached, and
nothing at all when it is uncached (the converters read the value store,
which an uncached cells does not have, after evaluating the arguments).

Run: cd /tmp/wth2_C09 && PYTHONPATH=/tmp/wth2_C09 /venv/bin/python FINDINGS/demo_4.py
"""
import modelx as mx


def build(flag):
    m = mx.new_model()
    s = m.new_space("S")

    @mx.defcells(space=s)
    def V(x):
        return 2 * x

    @mx.defcells(space=s)
    def U(x):
        return V(x) + 1

    s.U.is_cached = flag
    return m


res = {}
for flag in (True, False):
    m = build(flag)
    res[flag] = (
        m.S.U.to_series(1, 2, 3).to_dict(),
        m.S.U.to_frame(1, 2, 3).to_dict(),
        m.S.to_frame(1, 2, 3).to_dict(),
    )
    print("U.is_cached =", flag)
    for r in res[flag]:
        print("   ", r)
    m.close()

# Documented: "if a sequence of arguments to the cells is passed as args,
# the returned DataFrame contains values only for the specified args".
# The property: the values returned for those arguments do not depend on
# the cached flag.
assert res[True] == res[False], (
    "to_series/to_frame with arguments depend on the cached flag:\n"
    "cached  : %r\nuncached: %r" % (res[True], res[False]))
