"""C09 demo 6 (lower confidence: may be called intended overriding):
switching the cached flag of a *derived* cells - even there and back -
turns it into a defined cells, so later edits of the base formula no longer
reach it.  allow_none, the other per-cells property, does not do this.

Run: cd /tmp/wth2_C09 && PYTHONPATH=/tmp/wth2_C09 /venv/bin/python FINDINGS/demo_6.py
"""
import modelx as mx


def build(switch):
    m = mx.new_model()
    base = m.new_space("Base")
    base.new_cells("f", formula=lambda x: 1)
    sub = m.new_space("Sub", bases=base)
    if switch:
        sub.f.is_cached = False
        sub.f.is_cached = True      # back to where it was
    # a further edit
    base.f.formula = lambda x: 2
    return m


res = {}
for switch in (False, True):
    m = build(switch)
    res[switch] = (m.Base.f(0), m.Sub.f(0))
    print("flag of Sub.f switched there and back:", switch,
          "-> Base.f(0), Sub.f(0) =", res[switch])
    m.close()

# The property: switching cells between cached and uncached changes no value
# any cells returns, now or after any further edits.
assert res[True] == res[False], (
    "after the flag of Sub.f was switched, the edit of Base.f no longer "
    "reaches it: %r vs %r" % (res[True], res[False]))
