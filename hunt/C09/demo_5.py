"""C09 demo 5: Cells.copy() and Space.copy() silently turn uncached cells into
cached ones, so the copy of a working space refuses the unhashable arguments
that its formulas pass around.

Run: cd /tmp/wth2_C09 && PYTHONPATH=/tmp/wth2_C09 /venv/bin/python FINDINGS/demo_5.py
"""
import modelx as mx

m = mx.new_model()
s = m.new_space("S")


@mx.defcells(space=s, is_cached=False)
def total(seq):
    return sum(seq)


@mx.defcells(space=s)
def C(n):
    return total(list(range(n)))


assert s.C(4) == 6

t = s.copy(m, "T")              # "Make a copy of itself"
u = s.total.copy(s, "total2")

print("S.total.is_cached =", s.total.is_cached)
print("T.total.is_cached =", t.total.is_cached)
print("S.total2.is_cached =", u.is_cached)
try:
    copied = t.C(4)
except Exception as e:
    copied = type(e).__name__ + ": " + str(e).split("\n")[1]
print("S.C(4) =", s.C(4), "  T.C(4) =", copied)

# The property: uncached cells accept unhashable arguments and hold no values;
# a copy of an uncached cells is an uncached cells, and the copy of a space
# returns what the original returns.
assert t.total.is_cached is False and u.is_cached is False, (
    "the copies of the uncached cells 'total' are cached")
assert copied == 6, copied
