"""C04 demo 4: renaming the cells a 'relative' reference points to leaves
the sub spaces' derived references on the old counterpart; the model then
writes fine but cannot be read back.

Base.r -> Base.Ch.c in mode 'relative'; Sub(Base) derives Sub.r -> Sub.Ch.c.
Base.Ch.c.rename('e') is accepted without looking at Sub: Base.r follows to
Base.Ch.e while Sub.r stays on Sub.Ch.c.  Only Base.r is written.  The
reader re-derives it for Sub, finds no Sub.Ch.e and gives up.
(The same happens with Base.Ch.rename(...), Sub.Ch.c.rename(...),
del Sub.Ch.c and del Sub.Ch.)
"""
import tempfile, pathlib
import modelx as mx

m = mx.new_model("D4")
Base = m.new_space("Base")
Base.new_space("Ch").new_cells("c", formula=lambda x: x)
Sub = m.new_space("Sub")
Sub.new_space("Ch").new_cells("c", formula=lambda x: -x)

Base.set_ref("r", Base.Ch.c, "relative")
Base.new_cells("use", formula=lambda x: r(x))
Sub.add_bases(Base)
assert Sub.r is Sub.Ch.c and Sub.use(1) == -1

Base.Ch.c.rename("e")                      # accepted
assert Base.r is Base.Ch.e
assert Sub.r is Sub.Ch.c and Sub.use(2) == -2   # live model still works

tmp = pathlib.Path(tempfile.mkdtemp())
for kind in ("dir", "zip"):
    path = tmp / ("model_" + kind)
    (m.write if kind == "dir" else m.zip)(path)     # written without error

    try:
        r = mx.read_model(path, name="D4_" + kind)
        error = None
    except Exception as e:
        error = e

    assert error is None, (
        "C04 requires that a model written without error can always be read "
        "back (%s); read_model raised %s: %s"
        % (kind, type(error).__name__, error))
    assert r.Sub.r is r.Sub.Ch.c and r.Sub.use(2) == -2, (
        "C04 requires object-valued references to point at the "
        "corresponding objects and cells to return the same values")

print("no violation")
