"""C04 demo 1: allow_none set on a *derived* cells is lost by write/read.

Sub inherits cells ``foo`` from Base.  ``Sub.foo.allow_none = True`` is
accepted and takes effect (Sub.foo(3) returns None), but the cells stays
'derived', derived cells are not written, and so the flag is gone after
reading the model back: the same call raises instead of returning None.
"""
import tempfile, pathlib
import modelx as mx

m = mx.new_model("D1")
Base = m.new_space("Base")
Base.new_cells("foo", formula=lambda x: None if x > 2 else x)
Sub = m.new_space("Sub", bases=Base)

Sub.foo.allow_none = True            # legal, public property setter
assert Sub.foo.allow_none is True
assert Base.foo.allow_none is None   # the base is not touched
assert Sub.foo(3) is None            # the flag is effective in the live model

tmp = pathlib.Path(tempfile.mkdtemp())
for kind in ("dir", "zip"):
    path = tmp / ("model_" + kind)
    (m.write if kind == "dir" else m.zip)(path)
    r = mx.read_model(path, name="D1_" + kind)

    got_flag = r.Sub.foo.allow_none
    try:
        got_value = r.Sub.foo(3)
    except Exception as e:          # FormulaError wrapping NoneReturnedError
        got_value = "raised " + type(e).__name__

    assert got_flag is True, (
        "C04 requires the allow-none flag of every cells to survive the "
        "round trip (%s): Sub.foo.allow_none was True, read back as %r"
        % (kind, got_flag))
    assert got_value is None, (
        "C04 requires every cells to return the same values after the "
        "round trip (%s): Sub.foo(3) was None, now %r" % (kind, got_value))

print("no violation")
