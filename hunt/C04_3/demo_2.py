"""C04 demo 2: a model holding a None input writes fine but cannot be read
back once allow_none has been switched off again.

Switching allow_none off (on the cells, its space or the model) neither
clears nor refuses the None that was entered while it was on.  The live
model keeps returning it, the writer saves it, and the reader then refuses
to restore it.
"""
import tempfile, pathlib
import modelx as mx

m = mx.new_model("D2")
A = m.new_space("A")
A.new_cells("foo", formula=lambda x: x)

A.foo.allow_none = True
A.foo[1] = None                 # legal while allow_none is on
A.foo.allow_none = False        # legal; the input stays
assert dict(A.foo) == {1: None}
assert A.foo(1) is None         # the live model still returns the input

tmp = pathlib.Path(tempfile.mkdtemp())
for kind in ("dir", "zip"):
    path = tmp / ("model_" + kind)
    (m.write if kind == "dir" else m.zip)(path)     # written without error

    try:
        r = mx.read_model(path, name="D2_" + kind)
        error = None
    except Exception as e:
        error = e

    assert error is None, (
        "C04 requires that a model written without error can always be read "
        "back (%s); read_model raised %s: %s"
        % (kind, type(error).__name__, error))
    assert dict(r.A.foo) == {1: None} and r.A.foo.allow_none is False

print("no violation")
