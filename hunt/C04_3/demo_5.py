"""C04 demo 5 (minor): documentation text that contains the serializer's own
section marker makes the saved model unreadable.

The reader finds the '# Cells' / '# References' sections by scanning the
raw text of __init__.py line by line, also inside string literals.  A doc
string (or a comment / multi-line string in a def formula) holding the two
marker lines moves every following statement into the wrong section.
"""
import tempfile, pathlib
import modelx as mx

DIVIDER = "# " + "-" * 75
doc = "Notes on the file layout\n" + DIVIDER + "\n# References\nare listed last."

m = mx.new_model("D5")
A = m.new_space("A")
A.doc = doc
A.new_cells("foo", formula=lambda x: x + 1)
A.k = 3

tmp = pathlib.Path(tempfile.mkdtemp())
for kind in ("dir", "zip"):
    path = tmp / ("model_" + kind)
    (m.write if kind == "dir" else m.zip)(path)     # written without error

    try:
        r = mx.read_model(path, name="D5_" + kind)
        error = None
    except Exception as e:
        error = e

    assert error is None, (
        "C04 requires that a model written without error can always be read "
        "back, documentation strings included (%s); read_model raised %s: %s"
        % (kind, type(error).__name__, error))
    assert r.A.doc == doc and r.A.foo(1) == 2 and r.A.k == 3

print("no violation")
