"""C04 demo 3: a base space named like an attribute of Model / Space
(doc, name, path, refs, cells, parent, formula, ...) makes the saved model
unreadable.

Such names are accepted by new_space (and a reference *to* such a space
already survives the round trip).  The _bases list, however, is resolved
on reading with mx.get_object(), which walks the dotted name with getattr:
'D3.doc' yields the model's doc property (None) instead of the space.
"""
import tempfile, pathlib
import modelx as mx

m = mx.new_model("D3")
Base = m.new_space("doc")                    # accepted
Base.new_cells("foo", formula=lambda x: 10 * x)
Sub = m.new_space("Sub", bases=Base)
assert Sub.foo(2) == 20
assert [b.name for b in Sub.bases] == ["doc"]

# the same one level down, where the name hides a Space attribute
P = m.new_space("P")
NBase = P.new_space("parameters")
NBase.new_cells("bar", formula=lambda x: x + 1)
NSub = P.new_space("NSub", bases=NBase)
assert NSub.bar(1) == 2

tmp = pathlib.Path(tempfile.mkdtemp())
for kind in ("dir", "zip"):
    path = tmp / ("model_" + kind)
    (m.write if kind == "dir" else m.zip)(path)     # written without error

    try:
        r = mx.read_model(path, name="D3_" + kind)
        error = None
    except Exception as e:
        error = e

    assert error is None, (
        "C04 requires that a model written without error can always be read "
        "back with the same direct bases (%s); read_model raised %s: %s"
        % (kind, type(error).__name__, error))
    assert [b.name for b in r.Sub.bases] == ["doc"] and r.Sub.foo(2) == 20
    assert r.P.NSub.bar(1) == 2

print("no violation")
