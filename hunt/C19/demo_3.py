"""C19 demo 3: objects of two models are confused when they have the same
dotted name below the model.

A.Base holds a reference ``r`` to the cells B.Base.g of ANOTHER model.
A.Sub inherits from A.Base.  The derived reference A.Sub.r must still be the
cells of model B (an object of another model is never "inside" A.Base), but
it is silently re-bound to A.Sub.g, only because B.Base.g and A.Base.g have
the same name below their models.  Naming B's space differently makes the
defect disappear, i.e. what A's definitions are depends on names in B.

Run: cd /tmp/wth2_C19 && PYTHONPATH=/tmp/wth2_C19 /venv/bin/python FINDINGS/demo_3.py
"""
import warnings
import modelx as mx

warnings.simplefilter("ignore")


def scenario(b_space_name, ref_first):
    for m in list(mx.get_models().values()):
        m.close()

    B = mx.new_model("B")
    BS = B.new_space(b_space_name)
    BS.new_cells("g", formula=lambda x: 100 * x)

    A = mx.new_model("A")
    Base = A.new_space("Base")
    Base.new_cells("g", formula=lambda x: x)
    Base.new_cells("f", formula=lambda x: r(x))

    if ref_first:
        Base.r = BS.g                       # reference to the other model
        Sub = A.new_space("Sub", bases=Base)
    else:
        Sub = A.new_space("Sub", bases=Base)
        Base.r = BS.g

    assert Base.r is BS.g and Base.f(1) == 100
    return Sub.r is BS.g, Sub.r.fullname, Sub.f(1)


for ref_first in (True, False):
    control = scenario("Other", ref_first)
    assert control == (True, "B.Other.g", 100), control

    same, fullname, value = scenario("Base", ref_first)
    assert same and value == 100, (
        "C19: models are isolated - A.Sub.r is derived from A.Base.r, which "
        "refers to B.Base.g of another model, so it must be B.Base.g and "
        "A.Sub.f(1) must be 100; got %s and %r (ref assigned %s the sub space)"
        % (fullname, value, "before" if ref_first else "after"))
print("no violation")
