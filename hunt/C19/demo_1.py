"""C19 demo 1: an operation on model A destroys a definition of model B.

B holds no reference into A.  A holds a reference to the cells B.T.g and one
of its cells has called it.  After a pure A-side operation (clearing A's own
cells), a plain assignment inside B raises KeyError half-way, and B's own
reference ``k`` is gone from B for good (it is missing from a saved copy too).

Without the A-side operation the very same B operation works.

Run: cd /tmp/wth2_C19 && PYTHONPATH=/tmp/wth2_C19 /venv/bin/python FINDINGS/demo_1.py
"""
import warnings
import modelx as mx

warnings.simplefilter("ignore")


def scenario(touch_a):
    for m in list(mx.get_models().values()):
        m.close()

    B = mx.new_model("B")
    T = B.new_space("T")
    T.new_cells("g", formula=lambda x: 2 * x * k)
    T.k = 3

    A = mx.new_model("A")
    S = A.new_space("S")
    S.g_ref = T.g                       # A refers into B; B knows nothing of A
    S.new_cells("f", formula=lambda x: g_ref(x) + 1)
    assert S.f(1) == 7

    if touch_a:
        S.f.clear()                     # an operation on model A only

    # ---- from here on, only model B is operated on -----------------------
    error = None
    try:
        T.k = 5                         # re-assign B's own reference
    except Exception as e:              # noqa
        error = e

    has_k = "k" in T.refs
    value = T.g(1) if has_k else None
    return error, has_k, value


control = scenario(touch_a=False)
assert control == (None, True, 10), "control run is broken: %r" % (control,)

error, has_k, value = scenario(touch_a=True)

assert (error, has_k, value) == control, (
    "C19: an operation on model A must not change the definitions of model B,"
    " and B - which holds no reference into A - must behave the same whatever"
    " was done to A.  After `A.S.f.clear()`, `B.T.k = 5` raised %r, "
    "B.T still has its reference 'k': %r, B.T.g(1) == %r (required: no error,"
    " True, 10)" % (error, has_k, value))
print("no violation")
