"""C19 demo 2: an operation on model B wipes an input value of model A,
although A no longer holds any reference into B.

A once referred to B.T.g and computed A.S.f(1) through it.  Then A drops the
reference, gives f a formula of its own, and the user enters A.S.f[1] = 77 as
an input value.  From then on A holds no reference into B (and B never held
one into A).  Clearing B.T.g nevertheless deletes the input value in A.

Run: cd /tmp/wth2_C19 && PYTHONPATH=/tmp/wth2_C19 /venv/bin/python FINDINGS/demo_2.py
"""
import warnings
import modelx as mx

warnings.simplefilter("ignore")

B = mx.new_model("B")
T = B.new_space("T")
T.new_cells("g", formula=lambda x: 2 * x)

A = mx.new_model("A")
S = A.new_space("S")
S.g_ref = T.g
S.new_cells("f", formula=lambda x: g_ref(x) + 1)
assert S.f(1) == 3

# A cuts every tie to B
del S.g_ref
S.f.formula = lambda x: 10 * x
assert dict(S.f) == {}                      # the old value is gone
assert not [r for r in S.refs if not r.startswith("_")]
assert not [r for r in A.refs if not r.startswith("_")]

S.f[1] = 77                                 # input value entered by the user
S.f[2] = 78
assert dict(S.f) == {1: 77, 2: 78} and S.f.is_input(1)

T.g.clear()                                 # an operation on model B only

assert dict(S.f) == {1: 77, 2: 78}, (
    "C19: A holds no reference into B, so an operation on B must not change "
    "A's values; after B.T.g.clear() A.S.f is %r (input value f[1]=77 lost)"
    % (dict(S.f),))
print("no violation")
