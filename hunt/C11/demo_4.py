"""C11 - a rejected mx.defcells leaves a new space in the model.

`mx.defcells` used as a plain decorator works on the current space of the
current model and creates that space when the model has none (a new model, or
a model whose current space has been deleted).  The space is created before
the cells is validated, so a decoration that is refused - here for an invalid
name (leading underscore); a name clashing with a global reference does the
same - raises and still leaves the automatically created space `Space1`
behind.  (With no model open at all, a whole `Model1` is left behind, as it
is by a rejected `mx.new_space("1bad")`.)

The property requires that an editing operation that raises (an invalid or
clashing name) leaves every definition in the model - its spaces included -
exactly as it was.
"""
import modelx as mx

m = mx.new_model("M")
m.rate = 0.05
spaces_before = sorted(m.spaces)

# 1. invalid name
try:
    @mx.defcells
    def _private(x):
        return x
except ValueError as e:
    print("@mx.defcells on _private raised:", e)
else:
    raise SystemExit("accepted - scenario no longer applies")
spaces_after_1 = sorted(m.spaces)
print("spaces before:", spaces_before, " after:", spaces_after_1)

# 2. clashing name (global reference `rate`), from a clean model again
for name in list(m.spaces):
    del m.spaces[name]
assert sorted(m.spaces) == spaces_before
try:
    @mx.defcells
    def rate(x):
        return x
except ValueError as e:
    print("@mx.defcells on rate raised:", e)
else:
    raise SystemExit("accepted - scenario no longer applies")
spaces_after_2 = sorted(m.spaces)
print("spaces before:", spaces_before, " after:", spaces_after_2)

assert spaces_after_1 == spaces_before, (
    "C11: the rejected defcells (invalid name) must change nothing, but it "
    "left the space(s) %s in the model" % spaces_after_1)
assert spaces_after_2 == spaces_before, (
    "C11: the rejected defcells (clashing name) must change nothing, but it "
    "left the space(s) %s in the model" % spaces_after_2)
