"""C11 - a rejected deletion of a space is half carried out.

S derives from A and B.  Both define a reference `r`: A.r is a plain value
(S derives it from A, the nearer base), B.r is a 'relative' reference to B's
child space.  Setting B.r is accepted, because S does not derive it.

`del m.A` then raises ValueError ("Relative reference M.S.r out of scope"):
without A, S would have to derive B.r, which it cannot re-bind.  But by the
time the error is raised A has already been removed from the model, S has
lost the cells derived from A, and S still lists the deleted space among its
bases.

The property requires that an editing operation that raises leaves every
definition (spaces, bases, cells, references) exactly as it was and that the
base relation stays well-formed.
"""
import modelx as mx

m = mx.new_model("M")
A = m.new_space("A")
A.new_cells("fa", formula=lambda: 1)
A.r = 7
B = m.new_space("B")
B.new_cells("fb", formula=lambda: 2)
B.new_space("child")
S = m.new_space("S", bases=[A, B])
B.set_ref("r", B.child, "relative")     # accepted: S takes r from A
assert S.r == 7 and S.fa() == 1 and S.fb() == 2

before = dict(
    spaces=sorted(m.spaces),
    S_cells=sorted(S.cells),
    S_r=S.r,
)

try:
    del m.A
except ValueError as e:
    print("del m.A raised:", e)
else:
    raise SystemExit("the deletion was accepted - scenario no longer applies")

after = dict(
    spaces=sorted(m.spaces),
    S_cells=sorted(S.cells),
    S_r=S.r,
)
print("before:", before)
print("after: ", after)
print("S.bases:", S.bases)      # contains a deleted ('null') space

assert after == before, (
    "C11: the rejected `del m.A` must change nothing, but the model went "
    "from %r to %r" % (before, after))
