"""C11 - a rejected import_funcs / new_space_from_module is half carried out.

UserSpace.import_funcs (alias new_cells_from_module) creates one cells per
function of a module.  When one of the functions cannot become a cells - here
a private helper `_disc`, whose name is not a valid cells name; a function
named like an existing reference or child space does the same - the call
raises, but the cells for the functions that sort before it (`PV`) have
already been created, in the space and in every sub space.
Model.new_space_from_module / import_module additionally leave the new,
partly filled space in the model.

The property requires that an editing operation that raises (an invalid or
clashing name) leaves every definition in the model exactly as it was.
"""
import importlib
import os
import sys
import tempfile

import modelx as mx

tmp = tempfile.mkdtemp()
with open(os.path.join(tmp, "c11_demo_funcs.py"), "w") as f:
    f.write(
        "def PV(t):\n"
        "    return cashflow(t) * _disc(t)\n"
        "\n"
        "def _disc(t):\n"
        "    return 0.9 ** t\n"
        "\n"
        "def cashflow(t):\n"
        "    return 100\n"
    )
sys.path.insert(0, tmp)
module = importlib.import_module("c11_demo_funcs")

m = mx.new_model("M")
B = m.new_space("B")
S = m.new_space("S", bases=B)


def state():
    return dict(spaces=sorted(m.spaces),
                B_cells=sorted(B.cells), S_cells=sorted(S.cells))


# --- UserSpace.import_funcs ------------------------------------------------
before = state()
try:
    B.import_funcs(module)
except ValueError as e:
    print("B.import_funcs(module) raised:", e)
else:
    raise SystemExit("accepted - scenario no longer applies")
after1 = state()
print("before:", before)
print("after: ", after1)

# --- Model.new_space_from_module --------------------------------------------
try:
    m.new_space_from_module(module)
except ValueError as e:
    print("m.new_space_from_module(module) raised:", e)
else:
    raise SystemExit("accepted - scenario no longer applies")
after2 = state()
print("after: ", after2)

assert after1 == before, (
    "C11: the rejected import_funcs must change nothing, but the model went "
    "from %r to %r" % (before, after1))
assert after2 == after1, (
    "C11: the rejected new_space_from_module must change nothing, but the "
    "model went from %r to %r" % (after1, after2))
