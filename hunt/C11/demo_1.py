"""C11 - a rejected UserSpace.copy leaves a half-made copy behind.

A space has a cells `x`; later a model-level (global) reference `x` is
assigned (modelx accepts this: inside the space the cells keeps shadowing the
global reference).  Copying the space then raises ValueError in the middle:
the target space has already been created and filled with the cells that
precede `x`.

The property requires that an editing operation that raises (here: a clashing
name) leaves every definition in the model exactly as it was.
"""
import modelx as mx

m = mx.new_model("M")
A = m.new_space("A")
A.new_cells("a", formula=lambda: 1)
A.new_cells("x", formula=lambda: a() + 1)
A.new_cells("z", formula=lambda: x() + 1)
m.x = 10                      # accepted: a global reference named like A.x
assert A.z() == 3             # in A, `x` is still the cells

spaces_before = sorted(m.spaces)

try:
    A.copy(m, "A2")
except ValueError as e:
    print("A.copy(m, 'A2') raised:", e)
else:
    raise SystemExit("the copy was accepted - scenario no longer applies")

spaces_after = sorted(m.spaces)
print("spaces before:", spaces_before, " after:", spaces_after)
if "A2" in m.spaces:
    print("left-over M.A2 has cells:", list(m.A2.cells))

assert spaces_after == spaces_before, (
    "C11: a rejected edit must change nothing, but the rejected copy left the "
    "space(s) %s in the model" % sorted(set(spaces_after) - set(spaces_before)))
