"""C08 demo 4: an uncached cells whose call fails (and is handled by the
caller) is not recorded, although the cells reached through it are.

Property clause: "preds() lists exactly the elements its formula called when
it was computed (for calls passing through uncached cells: the cached
elements those reached, plus the uncached cells themselves)" - over all
interleavings including failed evaluations.
"""
import modelx as mx

m = mx.new_model("M")
s = m.new_space("S")


@mx.defcells(space=s)
def leaf(t):
    return t


@mx.uncached(space=s)
def helper(t):
    return leaf(t) / 0            # fails after reaching leaf(t)


@mx.defcells(space=s)
def A(t):
    try:
        return helper(t)
    except ZeroDivisionError:
        return -1


assert helper.is_cached is False
assert A(1) == -1
preds = A.preds(1)
print("A.preds(1):", preds)

reached_leaf = any(n.obj is leaf and n.args == (1,) for n in preds)
has_helper = any(n.obj is helper for n in preds)
assert reached_leaf             # the call through helper IS recorded ...

# consequence: editing helper does not clear A(1)
helper.formula = lambda t: leaf(t) * 100
kept = dict(A)
print("after editing helper, A holds:", kept, " fresh value would be 100")

assert has_helper, (
    "A(1) called the uncached cells 'helper' (and reached leaf(1) through "
    "it): preds() must list the uncached cells itself next to leaf(1), got "
    "%r; A(1)=%r survived the edit of helper" % (preds, kept.get(1)))
