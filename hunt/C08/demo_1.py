"""C08 demo 1: with recalculation on, assigning an input recalculates a cells
of an ItemSpace that the very same assignment deleted.

Property clause: "The elements present in the model's dependency graph are
exactly the elements holding a value; the graph ... never mentions a cleared
or deleted element" (and succs() is the inverse of preds()).
"""
import modelx as mx

m = mx.new_model("M")
p = m.new_space("P")


@mx.defcells(space=p)
def X():
    return 1


s = m.new_space("S")
s.X = p.X
# Both the ItemSpace S[i] and the cells inside it depend on X()
s.formula = lambda i: {"refs": {"z": X() * i}}


@mx.defcells(space=s)
def foo(t):
    return t + z + X()


assert s[3].foo(1) == 5          # X() -> S(3),  X() -> S[3].foo(1)

mx.set_recalc(True)              # documented: dependents are recalculated
try:
    X.value = 10                 # deletes S[3], then recalculates the leaves
finally:
    mx.set_recalc(False)

live_item = s[3]                 # the ItemSpace S[3] that exists now
live_foo = live_item.foo

# 1. graph == cache: count the elements that hold a value through the API
holding = len(X) + len(s.itemspaces) + len(live_foo)
in_graph = len(m.tracegraph)
print("elements holding a value:", holding, " nodes in the graph:", in_graph)
print("X.succs():", [(repr(n.obj), n.args) for n in X.succs()])

# 2. every successor of X() must be a live element of the model
for n in X.succs():
    assert n.obj is s or n.obj is live_foo, (
        "X.succs() lists %r%r, an element of the deleted ItemSpace; "
        "the graph must never mention a deleted element" % (n.obj, n.args))

assert in_graph == holding, (
    "the dependency graph must hold exactly the elements holding a value: "
    "%d nodes vs %d values" % (in_graph, holding))
