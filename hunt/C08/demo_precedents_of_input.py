import modelx as mx
m = mx.new_model(); s = m.new_space("S"); s.k = 3
c = s.new_cells("f", formula="lambda x: k + x")
c[1] = 10
try:
    print(c.precedents(1))
except Exception as e:
    print("raised", type(e).__name__, e)
