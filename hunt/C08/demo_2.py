"""C08 demo 2: input values copied by Cells.copy / Space.copy hold a value
but are not in the dependency graph.

Property clause: "The elements present in the model's dependency graph are
exactly the elements holding a value" and "for every element holding a
computed value, preds() lists ..." (preds() must be answerable).
"""
import modelx as mx

m = mx.new_model("M")
s = m.new_space("S")


@mx.defcells(space=s)
def foo(t):
    return t


foo[1] = 10                       # input value: node S.foo(1) is in the graph
assert foo.preds(1) == [] and foo.succs(1) == []

t = m.new_space("T")
f2 = foo.copy(t)                  # documented: copies the cells (with inputs)
s2 = s.copy(m, "S2")              # same through Space.copy
assert dict(f2) == {1: 10} and dict(s2.foo) == {1: 10}

holding = len(foo) + len(f2) + len(s2.foo)
in_graph = len(m.tracegraph)
print("elements holding a value:", holding, " nodes in the graph:", in_graph)

errors = []
if in_graph != holding:
    errors.append("graph has %d nodes, %d elements hold a value"
                  % (in_graph, holding))

try:
    if f2.preds(1) != [] or f2.succs(1) != []:
        errors.append("preds/succs of an input must be empty")
except Exception as e:  # NetworkXError: node is not in the digraph
    errors.append("T.foo(1) holds a value but preds() fails: %s" % e)

# consequence: the value cannot be cleared, because clearing walks the graph
f2.clear_at(1)
if 1 in f2:
    errors.append("T.foo.clear_at(1) left the value in place")
m.clear_all()
if len(f2) or len(s2.foo):
    errors.append("Model.clear_all() left the copied inputs in place")

print("\n".join(errors))
assert not errors, (
    "the elements in the dependency graph must be exactly the elements "
    "holding a value: " + "; ".join(errors))
