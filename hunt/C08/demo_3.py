"""C08 demo 3: a call into a cells of another open model is recorded in the
callee's model only.

Property clauses: "preds() lists exactly the elements its formula called",
"succs() is the inverse relation", "the graph never mentions a cleared
element" (several models open at once).
"""
import modelx as mx

m1 = mx.new_model("M1")
m2 = mx.new_model("M2")
s1 = m1.new_space("S")
s2 = m2.new_space("T")
s2.k = 3


@mx.defcells(space=s2)
def bar(t):
    return t * k


s1.bar = s2.bar                   # a reference to an object of another model


@mx.defcells(space=s1)
def foo(t):
    return bar(t) + 1


@mx.defcells(space=s1)
def baz(t):
    return foo(t) + 1


assert baz(1) == 5

errors = []
preds = [(n.obj, n.args) for n in foo.preds(1)]
succs = [(n.obj, n.args) for n in bar.succs(1)]
print("foo.preds(1):", foo.preds(1), " bar.succs(1):", bar.succs(1))
if not any(o is bar and a == (1,) for o, a in preds):
    errors.append("foo(1) called bar(1) but foo.preds(1) == %r while "
                  "bar.succs(1) == %r (not inverse)"
                  % (foo.preds(1), bar.succs(1)))

if len(m2.tracegraph) != len(bar):
    errors.append("graph of M2 has %d nodes but only %d elements of M2 hold "
                  "a value" % (len(m2.tracegraph), len(bar)))

# consequence: an edit in M2 clears M1.S.foo(1) behind M1's back
s2.k = 5
print("after T.k = 5:", dict(bar), dict(foo), dict(baz))
if 1 not in foo:
    stale = [n for n in baz.preds(1) if not n.has_value()]
    if stale:
        errors.append("baz.preds(1) mentions the cleared element %r" % stale)
    if 1 in baz:
        errors.append("baz(1) == %r is kept although its precedent foo(1) "
                      "was cleared (fresh value is 7)" % baz[1])

# same defect for a reference of the other model read by attribute path
s1.T = s2


@mx.defcells(space=s1)
def viaattr():
    return T.k


assert viaattr() == 5
s2.k = 6                          # M2 looks for the readers in its own graphs
if len(viaattr):
    errors.append("viaattr() == %r is kept although the reference M2.T.k "
                  "it read (listed in precedents()) was re-assigned to 6"
                  % viaattr.value)

print("\n".join(errors))
assert not errors, (
    "preds() must list exactly the calls made, succs() must be its inverse "
    "and the graph must not mention cleared elements: " + "; ".join(errors))
