"""C14 defect 3: a failed load is not rolled back in the session: the open
model that has the same name as the saved one stays renamed to <name>_BAKn,
and the current model is lost (cur_model() is None).

read_model creates the new model, and as soon as the `_name = ...` line of
the saved __init__.py is parsed (RenameParser, priority AT_PARSE) renames it
with rename_old=True, which renames the user's open model "M" to "M_BAK1".
When the load fails later (here: first file operation on a space source
file), ModelReader.read_model only closes the half-loaded model; the rename
of the user's model and the change of the current model are left behind.

run: cd /tmp/wth_C14 && PYTHONPATH=/tmp/wth_C14 /venv/bin/python FINDINGS/demo_3.py
"""
import atexit
import builtins
import io
import os
import shutil
import tempfile
import warnings

import modelx as mx

warnings.simplefilter("ignore")

d = tempfile.mkdtemp(prefix="c14_demo3_")
atexit.register(shutil.rmtree, d, True)
path = os.path.join(d, "model")

m = mx.new_model("M")
m.new_space("S").new_cells("foo", formula=lambda x: x)
m.write(path)                       # the saved copy; "M" stays open
assert mx.cur_model() is m

# ---- a load that fails at one file operation -------------------------------
real_open = builtins.open
target = os.path.join(path, "S", "__init__.py")


def failing_open(file, *a, **k):
    if isinstance(file, (str, os.PathLike)) and os.fspath(file) == target:
        raise OSError(5, "Input/output error (injected)", target)
    return real_open(file, *a, **k)


builtins.open = io.open = failing_open
try:
    try:
        mx.read_model(path)
        raise SystemExit("the load was expected to fail")
    except OSError as e:
        print("load failed as intended:", e)
finally:
    builtins.open = io.open = real_open

models = dict(mx.get_models())
cur = mx.cur_model()
print("models after the failed load:", models, " cur_model:", mx.cur_model())

# a later save of the user's model now records the wrong name
path2 = os.path.join(d, "model2")
m.write(path2)
for mm in list(mx.get_models().values()):
    mm.close()
saved_name = mx.read_model(path2).name
print("name recorded by a later save of the user's model:", saved_name)

assert set(models) == {"M"} and models["M"] is m and saved_name == "M", (
    "C14 violated: a failed load must leave no residue in the session, but "
    "the user's open model 'M' is now registered as %r and a later save "
    "of it records the name %r" % (sorted(models), saved_name))
assert cur is m, (
    "C14 violated: the failed load left the session without its current "
    "model (cur_model() was %r)" % cur)
print("OK")
