"""C14 defect 1: Model.zip reports success and leaves an archive without its
IO files at the destination when listing the staging directory fails.

IO files (pandas / module / excel data) of a zipped model are first written
to a staging directory and then copied into the archive by
ziputil.archive_dir, which walks the directory with os.walk.  os.walk
swallows the OSError of os.scandir (onerror=None), so a failure of that one
file-system operation is never seen: the save "succeeds", the incomplete
archive is moved onto the destination, the oldest backup is dropped, and the
archive cannot be read back.

run: cd /tmp/wth_C14 && PYTHONPATH=/tmp/wth_C14 /venv/bin/python FINDINGS/demo_1.py
"""
import atexit
import os
import shutil
import tempfile
import warnings
import zipfile

import pandas as pd
import modelx as mx

warnings.simplefilter("ignore")

d = tempfile.mkdtemp(prefix="c14_demo1_")
atexit.register(shutil.rmtree, d, True)
path = os.path.join(d, "model.zip")

m = mx.new_model("M")
s = m.new_space("S")
s.new_cells("foo", formula=lambda x: x)
m.new_pandas("df", "data/df.csv", pd.DataFrame({"a": [1, 2]}), "csv")

for gen in (1, 2, 3, 4):        # four good generations: path, _BAK1.._BAK3
    s.gen_ = gen
    m.zip(path)


def readable_gen(p):
    r = mx.read_model(p, name="Probe")
    try:
        assert r.df.a[1] == 2
        return r.S.gen_
    finally:
        r.close()


assert [readable_gen(path + sfx) for sfx in ("", "_BAK1", "_BAK2", "_BAK3")] \
       == [4, 3, 2, 1]

# ---- the 5th save: exactly one file-system operation fails ---------------
real_scandir = os.scandir
fired = []


def failing_scandir(top=".", *a, **k):
    # the staging directory of ModelWriter is <tmp>/<stem>_temp
    if not fired and isinstance(top, (str, os.PathLike)) \
            and os.fspath(top).endswith("model_temp"):
        fired.append(os.fspath(top))
        raise OSError(5, "Input/output error (injected)", os.fspath(top))
    return real_scandir(top, *a, **k)


s.gen_ = 5
os.scandir = failing_scandir
try:
    try:
        m.zip(path)
        save_failed = False
    except OSError:
        save_failed = True
finally:
    os.scandir = real_scandir

assert fired, "the injected failure point was not reached"

members = zipfile.ZipFile(path).namelist()
print("save raised:", save_failed)
print("members of", path, ":", members)

if save_failed:
    # acceptable outcome: the save failed, generation 4 must be back in place
    assert readable_gen(path) == 4
else:
    # the save claims success: the destination must hold the complete
    # generation 5 archive (property: "a zip destination never holds a
    # partially written archive")
    assert "data/df.csv" in members, (
        "C14 violated: Model.zip returned normally although a file "
        "operation failed, and the archive at the destination lacks "
        "its IO file data/df.csv: %s" % members)
    assert readable_gen(path) == 5
print("OK")
