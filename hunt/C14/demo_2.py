"""C14 defect 2: a failed load leaves the IO object of an absolute-path data
file registered in the session; the next load of the same (now good) model
fails with "cannot add spec", and saving an unrelated model writes that file.

The load is made to fail at a pickling operation: an object referenced in
the model raises while it is rebuilt from _data/data.pickle.  At that point
_data/iospecs.pickle has already been read, so the IOSpecs and their shared
IO objects exist in the IO manager, but are not yet bound to references.
System.close_model (called by ModelReader.read_model on failure) drops the
IOs of the model's own group only; an IO with an absolute path is keyed
(None, path) and survives.

run: cd /tmp/wth_C14 && PYTHONPATH=/tmp/wth_C14 /venv/bin/python FINDINGS/demo_2.py
"""
import atexit
import os
import shutil
import tempfile
import warnings

import pandas as pd
import modelx as mx

warnings.simplefilter("ignore")

FAIL = False


def _rebuild():
    if FAIL:
        raise RuntimeError("cannot rebuild Fragile (injected unpickling error)")
    return Fragile()


class Fragile:
    def __reduce__(self):
        return _rebuild, ()


for is_zip in (False, True):
    d = tempfile.mkdtemp(prefix="c14_demo2_")
    atexit.register(shutil.rmtree, d, True)
    path = os.path.join(d, "model.zip" if is_zip else "model")
    ext = os.path.join(d, "shared", "df.csv")       # absolute path: external file

    m = mx.new_model("M")
    s = m.new_space("S")
    s.frag = Fragile()
    s.new_pandas("df", ext, pd.DataFrame({"a": [1, 2]}), "csv")
    (m.zip if is_zip else m.write)(path)
    m.close()

    other = mx.new_model("Other")
    other.new_space("X").new_cells("c", formula=lambda: 1)
    before = sorted(mx.get_models())

    # ---- the failed load ---------------------------------------------------
    FAIL = True
    try:
        mx.read_model(path)
        raise SystemExit("the load was expected to fail")
    except RuntimeError as e:
        print("load failed as intended:", e)
    FAIL = False
    assert sorted(mx.get_models()) == before     # no half-loaded model: fine

    # ---- later saves behave normally? ---------------------------------------
    os.unlink(ext)
    other.write(os.path.join(d, "other"))
    leaked_write = os.path.exists(ext)
    print("saving the unrelated model 'Other' wrote", ext, ":", leaked_write)

    # ---- later loads behave normally? ---------------------------------------
    if not os.path.exists(ext):     # put the external data file back
        pd.DataFrame({"a": [1, 2]}).to_csv(ext)
    try:
        m2 = mx.read_model(path)
        later_load = None
    except Exception as e:
        later_load = e
    print("later load of the same model:", repr(later_load))

    assert later_load is None, (
        "C14 violated (%s): after a failed load, loading the model again "
        "must behave normally, but it raised %r"
        % ("zip" if is_zip else "dir", later_load))
    assert not leaked_write, (
        "C14 violated: a data file of the model whose load failed is "
        "still registered and is written when an unrelated model is saved")
    assert m2.S.df.a[1] == 2
    m2.close()
    other.close()
print("OK")
