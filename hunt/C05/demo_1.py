"""C05 demo 1: a failing uncached cells that was called with an unhashable
argument makes the top-level call raise TypeError("unhashable type") from the
error-report code, instead of an error carrying the original exception.

Uncached cells exist precisely so that unhashable arguments (lists, DataFrames)
can be passed - see the docstring of Cells.is_cached.
"""
import modelx as mx
from modelx.core.errors import FormulaError

m = mx.new_model("M1")
s = m.new_space("S")


@mx.defcells(space=s, is_cached=False)
def get_pv(cashflows, rate):
    # ZeroDivisionError when rate == -1
    return sum(v / (1 + rate) ** (i + 1) for i, v in enumerate(cashflows))


@mx.defcells(space=s)
def total(rate):
    return get_pv([1, 2, 3], rate)


assert abs(total(0) - 6) < 1e-12        # the model itself is fine

for label, call in [
    ("through a cached caller", lambda: total(-1)),
    ("called directly", lambda: get_pv([1, 2, 3], -1)),
]:
    raised = None
    try:
        call()
    except BaseException as e:      # noqa
        raised = e

    assert raised is not None, "the failing call must raise"

    # State is fine ...
    assert -1 not in total, "failed element must not acquire a value"

    # ... but the error that reaches the caller is not the formula's.
    assert isinstance(raised, FormulaError) and "ZeroDivisionError" in str(raised), (
        "%s: the top-level call must raise an error carrying the original "
        "exception (ZeroDivisionError), got %s: %s"
        % (label, type(raised).__name__, raised)
    )
    assert isinstance(mx.get_error(), ZeroDivisionError)

print("OK")
