"""C05 demo 2: Model.execute_actions that fails half-way leaves the
intermediate nodes it has value-pasted behind as *input* values.
They survive the repair, so the retry (and any plain evaluation)
silently returns numbers computed from the bad data.
"""
import warnings
import modelx as mx
from modelx.core.errors import FormulaError

warnings.simplefilter("ignore")


def build(name):
    m = mx.new_model(name)
    s = m.new_space("S")
    s.r = 1

    @mx.defcells(space=s)
    def base(t):
        return r * (t + 1)

    @mx.defcells(space=s)
    def acc(t):
        if t == 0:
            return base(0)
        return acc(t - 1) + base(t)

    @mx.defcells(space=s)
    def result():
        if r < 0:
            raise ValueError("negative rate")
        return acc(5)

    return m, s


# Reference: a model that never saw a failure
m0, s0 = build("Ref")
s0.r = 2
expected = s0.result()
assert expected == 42

m, s = build("M2")
actions = m.generate_actions([s.result.node()], step_size=3)   # small data set
assert len(s.acc) == len(s.base) == len(s.result) == 0

s.r = -1                    # the "entire data set" turns out to be bad
try:
    m.execute_actions(actions)
    raise SystemExit("execute_actions was expected to fail")
except FormulaError:
    assert isinstance(mx.get_error(), ValueError)

s.r = 2                     # repair the data

leftover = {k: v for k, v in s.acc.items()}
pasted = [k for k in s.acc if s.acc.is_input(k)]

# Retry exactly the same call, as the user would
m.execute_actions(actions)
got = s.result()

assert got == expected, (
    "after the failure was repaired the evaluation must return the same value "
    "as if the failure had not happened: expected %s, got %s "
    "(acc values left behind by the failed run: %s, marked as input: %s)"
    % (expected, got, leftover, pasted)
)
print("OK")
