"""C05 demo 3: two models open at once.  A formula in model A calls a cells
of model B and then raises.  The failed element A.S.f(1) is rolled back out of
A's graph only; it stays in B's trace graph as a (valueless) dependent of
B.S.g(1).  The next edit in B that clears g(1) raises KeyError half-way, g(1)
keeps its stale value, and later evaluations return wrong numbers.
"""
import modelx as mx
from modelx.core.errors import FormulaError


def build(suffix):
    mb = mx.new_model("B" + suffix)
    sb = mb.new_space("S")
    sb.k = 1

    @mx.defcells(space=sb)
    def g(x):
        return k * x

    ma = mx.new_model("A" + suffix)
    sa = ma.new_space("S")
    sa.lib = sb             # reference to a space of the other model
    sa.bad = True

    @mx.defcells(space=sa)
    def f(x):
        v = lib.g(x)
        if bad:
            raise ValueError("boom")
        return v + 1

    return sa, sb


# History without the failure
sa0, sb0 = build("0")
sb0.k = 2
sa0.bad = False
expected = (sa0.f(1), sb0.g(1))
assert expected == (3, 2)

# History with a failed evaluation in between
sa, sb = build("1")
try:
    sa.f(1)
    raise SystemExit("f(1) was expected to fail")
except FormulaError:
    assert isinstance(mx.get_error(), ValueError)

assert 1 not in sa.f and sb.g[1] == 1       # so far so good

succs = repr(sb.g.succs(1))      # dependents of g(1) right after the failure
edit_error = None
try:
    sb.k = 2                # edit in B: must clear g(1)
except BaseException as e:  # noqa
    edit_error = e

sa.bad = False              # repair
got = (sa.f(1), sb.g(1))

assert got == expected, (
    "later evaluations must return the same values as if the failure had not "
    "happened: expected (f(1), g(1)) == %s, got %s; the edit 'B.S.k = 2' "
    "raised %r; after the failure g(1) listed the valueless %s as dependents"
    % (expected, got, edit_error, succs))
assert edit_error is None
assert succs == "[]"
print("OK")
