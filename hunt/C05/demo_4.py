"""C05 demo 4: a formula translates the exception of a callee into another
exception and keeps the original traceback (raise New(...).with_traceback(tb)).
Building the error report then pops more nodes than were unwound by the
reported exception: the top-level call raises IndexError('pop from an empty
deque') instead of an error carrying the formula's exception.
"""
import modelx as mx
from modelx.core.errors import FormulaError

m = mx.new_model("M4")
s = m.new_space("S")


@mx.defcells(space=s)
def rate(x):
    return 1 / x


@mx.defcells(space=s)
def checked(x):
    try:
        return rate(x)
    except ZeroDivisionError as e:
        raise ValueError("bad input %s" % x).with_traceback(e.__traceback__)


@mx.defcells(space=s)
def top(x):
    return checked(x) + 1


assert top(1) == 2

raised = None
try:
    top(0)
except BaseException as e:      # noqa
    raised = e

# the state is rolled back ...
assert 0 not in top and 0 not in checked and 0 not in rate

# ... but the caller does not get the formula's exception
assert isinstance(raised, FormulaError) and "ValueError: bad input 0" in str(raised), (
    "the top-level call must raise an error carrying the original exception "
    "(ValueError('bad input 0')), got %s: %s" % (type(raised).__name__, raised)
)
assert isinstance(mx.get_error(), ValueError)
assert [n.obj.name for n, _ in mx.get_traceback()][:2] == ["top", "checked"]
assert top(2) == 1.5      # (moved here by the verifier: a successful call empties get_error())
print("OK")
