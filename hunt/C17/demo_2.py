"""C17 demo 2 - a failure that a formula caught and handled is listed in the
traceback of a later failure of the same evaluation.

Scenario A: ``run`` catches the error of ``parse`` and hands the exception
object to ``report``, whose formula raises it.  When the exception escapes,
``run`` and ``report`` are executing and ``report`` is the formula that raised;
``parse`` finished (its failure was handled) before ``report`` was even called.

Scenario B: "check everything, then fail with the first problem".

Run:  cd /tmp/wth2_C17 && PYTHONPATH=/tmp/wth2_C17 /venv/bin/python FINDINGS/demo_2.py
"""
import modelx as mx
from modelx.core.errors import FormulaError

m = mx.new_model("M")
s = m.new_space("S")

s.new_cells("parse", formula="def parse(x):\n    raise ValueError(x)")
s.new_cells("report", formula="def report(e):\n    raise e")
s.new_cells("run", formula=(
    "def run(x):\n"
    "    try:\n"
    "        parse(x)\n"
    "    except ValueError as e:\n"
    "        err = e\n"             # handled here
    "    return report(err)\n"))

s.new_cells("check_all", formula=(
    "def check_all(n):\n"
    "    first = None\n"
    "    for i in range(n):\n"
    "        try:\n"
    "            parse(i)\n"
    "        except ValueError as e:\n"
    "            first = first or e\n"   # handled here
    "    if first is not None:\n"
    "        raise first\n"
    "    return n\n"))


def names():
    return [(n.obj.name, line) for n, line in mx.get_traceback()]


# ---- scenario A
try:
    s.run(1)
except FormulaError:
    pass
tb = names()
print("A get_traceback:", tb, " get_error:", repr(mx.get_error()))
# C17: exactly the elements executing when the exception escaped, ending with
# the element whose formula raised (report), irrespective of exceptions that
# formulas caught and handled themselves (the one of parse, handled in run).
assert tb == [("run", 6), ("report", 2)], (
    "C17 violated: the chain executing when the exception escaped is "
    "[run line 6, report line 2] and ends with the raising formula 'report'; "
    "got %r - the handled failure of 'parse' is listed" % (tb,))

# ---- scenario B
try:
    s.check_all(2)
except FormulaError:
    pass
tb = names()
print("B get_traceback:", tb, " get_error:", repr(mx.get_error()))
assert tb == [("check_all", 9)], (
    "C17 violated: only check_all was executing when the exception escaped "
    "(raised at its line 9); got %r" % (tb,))
