"""C17 demo 3 - an exception group that a formula handled in part (except*).

``load`` raises an ExceptionGroup with a ValueError and a TypeError.  ``run``
handles the TypeError with ``except*``; Python re-raises the unhandled rest as
a *new* ExceptionGroup object that carries the traceback of the original.
modelx keys the unwound elements by the identity of the exception object, so
``load`` is dropped from the candidates while its frames are still in the
traceback: building the error report crashes.

Run:  cd /tmp/wth2_C17 && PYTHONPATH=/tmp/wth2_C17 /venv/bin/python FINDINGS/demo_3.py
"""
import modelx as mx
from modelx.core.errors import FormulaError

m = mx.new_model("M")
s = m.new_space("S")

s.new_cells("load", formula=(
    "def load(x):\n"
    "    raise ExceptionGroup('bad input', [ValueError(x), TypeError(x)])\n"))
s.new_cells("run", formula=(
    "def run(x):\n"
    "    try:\n"
    "        return load(x)\n"
    "    except* TypeError:\n"
    "        pass\n"))             # the ValueError part is not handled: it escapes

raised = None
try:
    s.run(1)
except BaseException as e:      # noqa
    raised = e

tb = [(n.obj.name, line) for n, line in mx.get_traceback()]
err = mx.get_error()
print("raised        :", type(raised).__name__, str(raised).splitlines()[0])
print("get_traceback :", tb)
print("get_error     :", repr(err))

# C17: when an evaluation fails, get_traceback() lists the elements whose
# formulas were executing when the exception escaped, outermost first, ending
# with the element whose formula raised; get_error() is the escaped exception.
assert isinstance(err, ExceptionGroup) and \
    [type(x) for x in err.exceptions] == [ValueError]
assert tb == [("run", 3), ("load", 2)], (
    "C17 violated: the evaluation of S.run(1) failed (the ValueError part of "
    "the group raised by 'load' escaped through 'run'), so get_traceback() "
    "must be [run line 3, load line 2]; got %r, and the call raised %s: %s"
    % (tb, type(raised).__name__, raised))
assert isinstance(raised, FormulaError)
