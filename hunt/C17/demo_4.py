"""C17 demo 4 - with sys.tracebacklimit set, the lines are lost.

``sys.tracebacklimit`` is the documented Python switch for shortening the
tracebacks that the interpreter prints (``sys.tracebacklimit = 0`` is the usual
way to show just the error message).  modelx rebuilds the formula chain from
``traceback.TracebackException(...).stack``, which honours that limit, so the
formula frames are not found and every element is reported with line 0.

Run:  cd /tmp/wth2_C17 && PYTHONPATH=/tmp/wth2_C17 /venv/bin/python FINDINGS/demo_4.py
"""
import sys
import modelx as mx
from modelx.core.errors import FormulaError

m = mx.new_model("M")
s = m.new_space("S")
s.new_cells("a", formula="def a(x):\n    return b(x)")
s.new_cells("b", formula="def b(x):\n    y = x\n    return c(y)")
s.new_cells("c", formula="def c(x):\n    y = x\n    z = y\n    return 1 / (z - z)")


def failure(x):
    try:
        s.a(x)
    except FormulaError:
        pass
    return [(n.obj.name, line) for n, line in mx.get_traceback()]


expected = [("a", 2), ("b", 3), ("c", 4)]
assert failure(1) == expected           # without the limit: correct

sys.tracebacklimit = 0
try:
    tb = failure(2)
finally:
    del sys.tracebacklimit

print("get_traceback with sys.tracebacklimit = 0:", tb)
# C17: each element comes with the line of its formula where the next call or
# the error occurred.
assert tb == expected, (
    "C17 violated: with sys.tracebacklimit = 0 the traceback must still be %r "
    "(each element with the line of its formula); got %r" % (expected, tb))
