"""C17 demo 1 - an earlier failure leaks into the report of the next one.

A formula raises an exception *object* that lives longer than one evaluation
(here: the cached value of a cells; a reference holding the instance behaves
the same).  Python appends the frames of every new propagation in front of the
frames that are already stored in ``exc.__traceback__``.  The second failure is
therefore reported from a Python traceback that still contains the formulas of
the first failure.

Run:  cd /tmp/wth2_C17 && PYTHONPATH=/tmp/wth2_C17 /venv/bin/python FINDINGS/demo_1.py
"""
import modelx as mx
from modelx.core.errors import FormulaError

m = mx.new_model("M")
s = m.new_space("S")

s.new_cells("limit_error", formula="def limit_error():\n    return ValueError('over the limit')")
s.new_cells("check", formula=(
    "def check(x):\n"
    "    if x > 10:\n"
    "        raise limit_error()\n"
    "    return x\n"))
s.new_cells("total", formula="def total(x):\n    return check(x) + 1")


def chain():
    return [(n.obj.name, n.args, line) for n, line in mx.get_traceback()]


# ---- first failure: reported correctly
try:
    s.total(11)
except FormulaError:
    pass
else:
    raise SystemExit("setup: expected a failure")
assert chain() == [("total", (11,), 2), ("check", (11,), 3)], chain()
assert mx.get_error() is s.limit_error()

# ---- second failure, another chain
raised = None
try:
    s.check(12)
except BaseException as e:      # noqa
    raised = e

tb = chain()
print("raised        :", type(raised).__name__, str(raised).splitlines()[0])
print("get_traceback :", tb)
print("get_error     :", repr(mx.get_error()))

# C17: get_traceback() lists exactly the elements that were executing when the
# exception escaped (only S.check(12), at its line 3), and describes the most
# recent failure only, irrespective of earlier failures.
assert tb == [("check", (12,), 3)], (
    "C17 violated: after an earlier failure, the failure of S.check(12) must be "
    "reported as [check(12) line 3]; got %r (the call raised %s: %s)"
    % (tb, type(raised).__name__, raised))
assert isinstance(raised, FormulaError)
assert mx.get_error() is s.limit_error()
