"""C01 demo 1: a cells whose formula has a var-positional parameter (*args)
does not return the value of its formula.

Run: cd /tmp/wth2_C01 && PYTHONPATH=/tmp/wth2_C01 /venv/bin/python FINDINGS/demo_1.py
"""
import modelx as mx

m = mx.new_model()
s = m.new_space("S")


def total(x, *rest):
    return x + sum(rest)


def pack(x, *rest):
    return (x, rest)


ctotal = s.new_cells("total", formula=total)
cpack = s.new_cells("pack", formula=pack)

# The formula evaluated as a plain (pure) function:
assert pack(1, 2, 3) == (1, (2, 3))
assert total(1, 2, 3) == 6

got_pack = cpack(1, 2, 3)
print("pack(1, 2, 3) ->", got_pack)
try:
    got_total = ctotal(1, 2, 3)
except Exception as e:      # FormulaError: unsupported operand int + tuple
    got_total = "%s" % type(e).__name__
print("total(1, 2, 3) ->", got_total)

assert got_pack == pack(1, 2, 3), (
    "C01: calling the cells must return exactly the value of its formula "
    "evaluated as a function: pack(1, 2, 3) is (1, (2, 3)) but the cells "
    "returned %r (the var-positional arguments arrive re-wrapped in a tuple)"
    % (got_pack,))
assert got_total == 6, (
    "C01: total(1, 2, 3) must be 6, the cells gave %r" % (got_total,))
