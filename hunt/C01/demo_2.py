"""C01 demo 2: re-defining an existing cells with @mx.uncached(...) or
@mx.defcells(..., is_cached=...) silently keeps the OLD formula (and the old
is_cached flag), so the cells keeps returning the values of a formula the
user has replaced.

Run: cd /tmp/wth2_C01 && PYTHONPATH=/tmp/wth2_C01 /venv/bin/python FINDINGS/demo_2.py
"""
import modelx as mx

m = mx.new_model()
s = m.new_space("S")


@mx.defcells(space=s)
def foo(x):
    return x


assert foo(3) == 3 and foo.is_cached is True


# Documented (api.defcells, usage 2): "If the cells named ... already exists
# in the specified space, update its formula and is_cached property"
@mx.defcells(space=s, name="foo", is_cached=False)
def foo_new(x):
    return 2 * x


assert foo_new is foo       # the existing cells was "updated"

print("formula now:", foo.formula.source.strip().splitlines()[-1])
print("is_cached  :", foo.is_cached)
print("foo(3)     :", foo(3))

assert foo(3) == 6, (
    "C01: the cells must return the value of its (re-defined) formula "
    "'return 2 * x', i.e. 6, but it returned %r: the new formula given to "
    "@mx.defcells(space=, name=, is_cached=False) was dropped" % foo(3))
assert foo.is_cached is False, "is_cached=False was dropped as well"
