"""C01 demo 5 (design-level, lower priority): arguments that compare equal but
are different values (1, 1.0, True) are one element, so the value returned for
one of them depends on which of them was requested first.

Run: cd /tmp/wth2_C01 && PYTHONPATH=/tmp/wth2_C01 /venv/bin/python FINDINGS/demo_5.py
"""
import modelx as mx


def label(t):
    return "t=%s" % (t,)


def build():
    m = mx.new_model()
    s = m.new_space("S")
    return s.new_cells("label", formula=label)


c1 = build()
first = [c1(1), c1(1.0), c1(True)]          # requested in this order
c2 = build()
second = [c2(True), c2(1.0), c2(1)][::-1]   # same elements, reverse order

print("1, 1.0, True requested in that order:", first)
print("requested in the reverse order      :", second)
print("formula as a pure function          :", [label(1), label(1.0), label(True)])

assert first == [label(1), label(1.0), label(True)] and second == first, (
    "C01: each call must return the value of the formula for the given "
    "arguments, whatever was computed before and in whatever order: "
    "expected ['t=1', 't=1.0', 't=True'] both times, got %r and %r"
    % (first, second))
