"""C01 demo 4: Cells.copy() / UserSpace.copy() turn an uncached cells into a
cached one (is_cached is not copied), so the copy does not return the value of
its formula for arguments the original handles (unhashable arguments).

Run: cd /tmp/wth2_C01 && PYTHONPATH=/tmp/wth2_C01 /venv/bin/python FINDINGS/demo_4.py
"""
import modelx as mx

m = mx.new_model()
A = m.new_space("A")
B = m.new_space("B")


# The example of the Cells.is_cached documentation
@mx.uncached(space=A)
def get_pv(cashflows):
    return sum(cashflows)


assert get_pv.is_cached is False
assert get_pv([1, 2, 3]) == 6

copied = get_pv.copy(B)             # "Make a copy of itself"
A2 = A.copy(m, "A2")                # a copy of the whole space

print("copy is_cached:", copied.is_cached, " in copied space:", A2.get_pv.is_cached)
results = []
for c in (copied, A2.get_pv):
    try:
        results.append(c([1, 2, 3]))
    except Exception as e:
        results.append("%s: %s" % (type(e).__name__, e))
print("copies called with [1, 2, 3]:", results)

assert copied.formula.source == get_pv.formula.source
assert results == [6, 6], (
    "C01: the copies have the same formula as the original, so calling them "
    "with [1, 2, 3] must return sum([1, 2, 3]) == 6 like the original, "
    "but they gave %r: the copy lost is_cached=False" % (results,))
