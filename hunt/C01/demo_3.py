"""C01 demo 3: after UserSpace.reload() the cells show the new formula but keep
evaluating the old code (when the reloaded module only changes function
bodies, i.e. no function is added or removed).

Run: cd /tmp/wth2_C01 && PYTHONPATH=/tmp/wth2_C01 /venv/bin/python FINDINGS/demo_3.py
"""
import importlib
import os
import sys
import tempfile
import time

import modelx as mx

d = tempfile.mkdtemp()
sys.path.insert(0, d)
path = os.path.join(d, "c01_reload_mod.py")
with open(path, "w") as f:
    f.write("def foo(x):\n    return x + 1\n")

mod = importlib.import_module("c01_reload_mod")
m = mx.new_model()
space = m.import_module(module=mod, name="Src")
assert space.foo(1) == 2

time.sleep(1.1)     # let the source's mtime differ
with open(path, "w") as f:
    f.write("def foo(x):\n    return x + 2000\n")
importlib.invalidate_caches()

space.reload()      # documented: "Reload the source module and update the formulas"

src = space.foo.formula.source
print("formula after reload:", src.strip().splitlines()[-1].strip())
assert "x + 2000" in src        # the cells does carry the new formula

got = space.foo(1)              # the old value was cleared: this is a fresh run
got2 = space.foo(5)             # never computed before
print("foo(1) ->", got, "  foo(5) ->", got2)

assert got == 2001 and got2 == 2005, (
    "C01: a cells must return the value of its formula; the formula is "
    "'return x + 2000' but foo(1), foo(5) returned %r, %r: the bound function "
    "of the cells still runs the code of the formula before reload()"
    % (got, got2))
