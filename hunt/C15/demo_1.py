"""C15 demo 1: a cached cells whose parameter is named ``val`` returns wrong
values from the exported package.

The generated cache wrapper uses a local variable called ``val`` for the
result; it overwrites the user's parameter of the same name before the key of
the cache entry is formed, so the result is stored under the *result* instead
of under the argument.  A later call whose argument equals an earlier result
gets that earlier result back.
"""
import json
import os
import subprocess
import sys
import tempfile

import modelx as mx

pass  # (worktree-location assertion of the agent removed)

_CHILD = r'''
import sys, json, importlib, importlib.util, traceback
sys.path.insert(0, sys.argv[1])
assert importlib.util.find_spec('modelx') is None   # modelx is not importable here
out = {'import_error': None, 'values': {}}
try:
    pkg = importlib.import_module(sys.argv[2])
    m = pkg.mx_model
except BaseException as e:
    out['import_error'] = type(e).__name__ + ': ' + str(e)
else:
    for expr in json.loads(sys.argv[3]):
        try:
            out['values'][expr] = repr(eval(expr, {'m': m}))
        except Exception as e:
            out['values'][expr] = 'raised ' + type(e).__name__ + ': ' + str(e)
assert 'modelx' not in sys.modules
print('@@' + json.dumps(out))
'''


def exported_values(model, exprs):
    """Export `model`, import the package in a fresh interpreter without modelx,
    evaluate each expression (with `m` bound to the exported model) and return
    (import_error, {expr: repr(value)})."""
    root = tempfile.mkdtemp(prefix='c15_')
    pkg = model.name + '_pkg'
    model.export(os.path.join(root, pkg))
    env = {k: v for k, v in os.environ.items() if not k.startswith('PYTHON')}
    p = subprocess.run(
        [sys.executable, '-I', '-S', '-c', _CHILD, root, pkg, json.dumps(exprs)],
        capture_output=True, text=True, env=env, cwd=root)
    assert '@@' in p.stdout, p.stdout + p.stderr
    out = json.loads(p.stdout.split('@@')[1])
    return out['import_error'], out['values']


def model_values(model, exprs):
    return {e: repr(eval(e, {'m': model})) for e in exprs}


m = mx.new_model('Demo1')
A = m.new_space('A')


@mx.defcells(space=A)
def succ(val):
    return val + 1


@mx.defcells(space=A)
def scaled(val, k=1):
    return val * 2 + k


exprs = ['m.A.succ(1)', 'm.A.succ(2)', 'm.A.succ(3)',
         'm.A.scaled(1)', 'm.A.scaled(3)']
expected = model_values(m, exprs)
assert expected['m.A.succ(2)'] == '3' and expected['m.A.scaled(3)'] == '7'

err, got = exported_values(m, exprs)
print('model   :', expected)
print('exported:', got)
assert err is None, err
assert got == expected, (
    "C15: the exported package must return, for every cells and arguments, "
    "the same value as the model; model=%r exported=%r" % (expected, got))
print('OK')
