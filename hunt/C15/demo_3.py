"""C15 demo 3: an ItemSpace parameter or a child space whose name is also the
name of a built-in (``id``, ``type``, ``min`` ...) is resolved to the built-in
in the exported package.

In the model the name is in the namespace of the space and shadows the
built-in.  The exporter only protects *references* with built-in names (by
dummy assignments); for parameters and child spaces the transformer sees an
unassigned global that is in ``builtins`` and leaves it bare.
"""
import json
import os
import subprocess
import sys
import tempfile

import modelx as mx

pass  # (worktree-location assertion of the agent removed)

_CHILD = r'''
import sys, json, importlib, importlib.util, traceback
sys.path.insert(0, sys.argv[1])
assert importlib.util.find_spec('modelx') is None   # modelx is not importable here
out = {'import_error': None, 'values': {}}
try:
    pkg = importlib.import_module(sys.argv[2])
    m = pkg.mx_model
except BaseException as e:
    out['import_error'] = type(e).__name__ + ': ' + str(e)
else:
    for expr in json.loads(sys.argv[3]):
        try:
            out['values'][expr] = repr(eval(expr, {'m': m}))
        except Exception as e:
            out['values'][expr] = 'raised ' + type(e).__name__ + ': ' + str(e)
assert 'modelx' not in sys.modules
print('@@' + json.dumps(out))
'''


def exported_values(model, exprs):
    """Export `model`, import the package in a fresh interpreter without modelx,
    evaluate each expression (with `m` bound to the exported model) and return
    (import_error, {expr: repr(value)})."""
    root = tempfile.mkdtemp(prefix='c15_')
    pkg = model.name + '_pkg'
    model.export(os.path.join(root, pkg))
    env = {k: v for k, v in os.environ.items() if not k.startswith('PYTHON')}
    p = subprocess.run(
        [sys.executable, '-I', '-S', '-c', _CHILD, root, pkg, json.dumps(exprs)],
        capture_output=True, text=True, env=env, cwd=root)
    assert '@@' in p.stdout, p.stdout + p.stderr
    out = json.loads(p.stdout.split('@@')[1])
    return out['import_error'], out['values']


def model_values(model, exprs):
    return {e: repr(eval(e, {'m': model})) for e in exprs}


m = mx.new_model('Demo3')

# (a) ItemSpace parameter named like a built-in
Policy = m.new_space('Policy', formula=lambda id, type='A': None)


@mx.defcells(space=Policy)
def premium(t):
    return id * 100 + t + (1 if type == 'A' else 2)


@mx.defcells(space=Policy)
def kind():
    return 1 if type == 'A' else 2      # silently wrong in the export


Inner = Policy.new_space('Inner')       # the parameter is visible here too


@mx.defcells(space=Inner)
def twice():
    return id * 2


# (b) child space named like a built-in
Outer = m.new_space('Outer')
Outer.new_space('min').new_cells('floor', formula=lambda t: t - 1)


@mx.defcells(space=Outer)
def use_child(t):
    return min.floor(t) * 10


exprs = ['m.Policy[3].kind()', 'm.Policy[3].premium(2)', 'm.Policy(4, "B").premium(1)',
         'm.Policy[3].Inner.twice()', 'm.Outer.use_child(5)']
expected = model_values(m, exprs)
assert expected == {'m.Policy[3].kind()': '1',
                    'm.Policy[3].premium(2)': '303',
                    'm.Policy(4, "B").premium(1)': '403',
                    'm.Policy[3].Inner.twice()': '6',
                    'm.Outer.use_child(5)': '40'}

err, got = exported_values(m, exprs)
print('model   :', expected)
print('exported:', got)
assert err is None, err
assert got == expected, (
    "C15: names shadowing built-ins must resolve as in the model; the "
    "exported package must return the model's values; model=%r exported=%r"
    % (expected, got))
print('OK')
