"""C15 demo 4: a reference whose (literal) float value is ``inf``, ``-inf`` or
``nan`` makes the exported package unimportable.

Float references are written into the generated modules as literals using
``pprint.pformat``; for non-finite floats that yields the bare words ``inf`` /
``nan``, which are undefined names in the generated module.  The NameError is
raised while the model object is being constructed, so nothing of the model
can be used.
"""
import json
import os
import subprocess
import sys
import tempfile

import modelx as mx

pass  # (worktree-location assertion of the agent removed)

_CHILD = r'''
import sys, json, importlib, importlib.util, traceback
sys.path.insert(0, sys.argv[1])
assert importlib.util.find_spec('modelx') is None   # modelx is not importable here
out = {'import_error': None, 'values': {}}
try:
    pkg = importlib.import_module(sys.argv[2])
    m = pkg.mx_model
except BaseException as e:
    out['import_error'] = type(e).__name__ + ': ' + str(e)
else:
    for expr in json.loads(sys.argv[3]):
        try:
            out['values'][expr] = repr(eval(expr, {'m': m}))
        except Exception as e:
            out['values'][expr] = 'raised ' + type(e).__name__ + ': ' + str(e)
assert 'modelx' not in sys.modules
print('@@' + json.dumps(out))
'''


def exported_values(model, exprs):
    """Export `model`, import the package in a fresh interpreter without modelx,
    evaluate each expression (with `m` bound to the exported model) and return
    (import_error, {expr: repr(value)})."""
    root = tempfile.mkdtemp(prefix='c15_')
    pkg = model.name + '_pkg'
    model.export(os.path.join(root, pkg))
    env = {k: v for k, v in os.environ.items() if not k.startswith('PYTHON')}
    p = subprocess.run(
        [sys.executable, '-I', '-S', '-c', _CHILD, root, pkg, json.dumps(exprs)],
        capture_output=True, text=True, env=env, cwd=root)
    assert '@@' in p.stdout, p.stdout + p.stderr
    out = json.loads(p.stdout.split('@@')[1])
    return out['import_error'], out['values']


def model_values(model, exprs):
    return {e: repr(eval(e, {'m': model})) for e in exprs}


m = mx.new_model('Demo4')
A = m.new_space('A')
A.max_age = float('inf')        # "no limit"
A.missing = float('nan')
A.scale = 2.5                   # an ordinary float, for comparison


@mx.defcells(space=A)
def is_alive(age):
    return age < max_age


@mx.defcells(space=A)
def is_missing():
    return missing != missing


@mx.defcells(space=A)
def scaled(t):
    return t * scale


exprs = ['m.A.is_alive(120)', 'm.A.is_missing()', 'm.A.scaled(2)', 'm.A.max_age']
expected = model_values(m, exprs)
assert expected == {'m.A.is_alive(120)': 'True', 'm.A.is_missing()': 'True',
                    'm.A.scaled(2)': '5.0', 'm.A.max_age': 'inf'}

err, got = exported_values(m, exprs)
print('model   :', expected)
print('exported:', got, '| import error:', err)
assert err is None, (
    "C15: a model with literal float references is in the export subset; the "
    "package must import without modelx and return the model's values, but "
    "importing it raised " + err)
assert got == expected, (
    "C15: exported values must equal the model's; model=%r exported=%r"
    % (expected, got))
print('OK')
