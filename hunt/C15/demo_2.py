"""C15 demo 2: a call that passes a model name as a keyword argument of the
same name (``bar(n=n)``, ``dict(rate=rate)``) makes the exported package
unimportable.

The transformer prefixes the *keyword* of the argument with ``self.`` as well
as its value, producing ``self.bar(self.n=self.n)`` - a SyntaxError that
breaks the whole ``_mx_classes`` module, i.e. every cells of every space in
it.
"""
import json
import os
import subprocess
import sys
import tempfile

import modelx as mx

pass  # (worktree-location assertion of the agent removed)

_CHILD = r'''
import sys, json, importlib, importlib.util, traceback
sys.path.insert(0, sys.argv[1])
assert importlib.util.find_spec('modelx') is None   # modelx is not importable here
out = {'import_error': None, 'values': {}}
try:
    pkg = importlib.import_module(sys.argv[2])
    m = pkg.mx_model
except BaseException as e:
    out['import_error'] = type(e).__name__ + ': ' + str(e)
else:
    for expr in json.loads(sys.argv[3]):
        try:
            out['values'][expr] = repr(eval(expr, {'m': m}))
        except Exception as e:
            out['values'][expr] = 'raised ' + type(e).__name__ + ': ' + str(e)
assert 'modelx' not in sys.modules
print('@@' + json.dumps(out))
'''


def exported_values(model, exprs):
    """Export `model`, import the package in a fresh interpreter without modelx,
    evaluate each expression (with `m` bound to the exported model) and return
    (import_error, {expr: repr(value)})."""
    root = tempfile.mkdtemp(prefix='c15_')
    pkg = model.name + '_pkg'
    model.export(os.path.join(root, pkg))
    env = {k: v for k, v in os.environ.items() if not k.startswith('PYTHON')}
    p = subprocess.run(
        [sys.executable, '-I', '-S', '-c', _CHILD, root, pkg, json.dumps(exprs)],
        capture_output=True, text=True, env=env, cwd=root)
    assert '@@' in p.stdout, p.stdout + p.stderr
    out = json.loads(p.stdout.split('@@')[1])
    return out['import_error'], out['values']


def model_values(model, exprs):
    return {e: repr(eval(e, {'m': model})) for e in exprs}


m = mx.new_model('Demo2')
A = m.new_space('A')
A.n = 5
A.rate = 0.5


@mx.defcells(space=A)
def bar(n):
    return n * 2


@mx.defcells(space=A)
def foo():
    return bar(n=n)             # keyword and value are both called n


@mx.defcells(space=A)
def as_dict(t):
    return dict(rate=rate, t=t)     # same with a plain Python callable


@mx.defcells(space=A)
def unrelated(t):
    return t + 1


exprs = ['m.A.foo()', 'm.A.as_dict(1)', 'm.A.unrelated(1)']
expected = model_values(m, exprs)
assert expected == {'m.A.foo()': '10',
                    'm.A.as_dict(1)': "{'rate': 0.5, 't': 1}",
                    'm.A.unrelated(1)': '2'}

err, got = exported_values(m, exprs)
print('model   :', expected)
print('exported:', got, '| import error:', err)
assert err is None, (
    "C15: the generated package must be importable without modelx and "
    "return the model's values; importing it raised " + err)
assert got == expected, (
    "C15: exported values must equal the model's; model=%r exported=%r"
    % (expected, got))
print('OK')
