"""C16 - ItemSpaces whose parameter formula reads a cells: generate_actions
itself discards the ItemSpaces that its own action list refers to.

(May overlap with the known "execute_actions act on ItemSpaces discarded
since" item; it is listed because nothing is done between generate_actions
and execute_actions here - generate_actions' own clean-up does the discarding,
so there is no way to use the feature correctly with such a model.)

S[i] is built from P.get(i) (the usual lifelib pattern: the space formula
looks the item's parameters up in a table cells).  The clean-up at the end of
generate_actions clears P.get(i); (S, i) is a dependent of P.get(i), so S[i]
is deleted with all its cells.  The returned actions hold nodes of the deleted
cells.  execute_actions computes values into those dead cells, the live model
builds S[i] again and computes everything a second time, and the values in
the rebuilt ItemSpaces are never cleared.
"""
import warnings
warnings.simplefilter("ignore")
import modelx as mx

m = mx.new_model()
m.LOG = LOG = []
P = m.new_space("P")


@mx.defcells(space=P)
def get(i):
    LOG.append(("get", i))
    return (i + 1) * 100


S = m.new_space("S")
S.P = P
S.formula = lambda i: {"refs": {"p": P.get(i)}}


@mx.defcells(space=S)
def foo(x):
    LOG.append(("foo", i, x))
    return p + x + (foo(x - 1) if x > 0 else 0)


T = m.new_space("T")
T.S = S


@mx.defcells(space=T)
def top():
    LOG.append(("top",))
    return S[0].foo(2) + S[1].foo(2)


direct = T.top()
m.clear_all()

actions = m.generate_actions([T.top.node()], step_size=2)
del LOG[:]
m.execute_actions(actions)
print("formulas run during execute_actions:", LOG)

assert T.top() == direct and T.top.is_input()
left = {("get", k): v for k, v in dict(P.get).items()}
for k, sp in S.itemspaces.items():
    left.update({("foo", k, x): v for x, v in dict(sp.foo).items()})
print("values left besides the target:", left)
twice = sorted(set(e for e in LOG if LOG.count(e) > 1))
assert not twice, (
    "executing the actions must never compute an element twice; "
    "computed more than once: %s" % twice)
assert not left, (
    "executing must leave no calculated value other than the target: %s" % left)
