"""C16 - elements that already hold a calculated value when generate_actions
is called are invisible to it.

generate_actions only learns about elements whose formula is *entered* during
its trial run.  A precedent of the target that is already cached is read
from the cache, is not entered, and so is in no calc step, is not cleared
by generate_actions and is not cleared by execute_actions: after the
memory-optimised run the model still holds calculated values other than the
target.
"""
import warnings
warnings.simplefilter("ignore")
import modelx as mx

m = mx.new_model()
s = m.new_space("S")


@mx.defcells(space=s)
def a(x):
    return x if x == 0 else a(x - 1) + 1


@mx.defcells(space=s)
def t(x):
    return a(x) * 2


direct = s.t(4)
m.clear_all()

s.a(2)          # the user looked at an intermediate result: a(0..2) cached

target = s.t.node(4)
actions = m.generate_actions([target], step_size=2)
for act in actions:
    print(act)
scheduled = [n for act, ns in actions if act == "calc" for n in ns]
after_generate = dict(s.a)

m.execute_actions(actions)
print("after execute: a =", dict(s.a), " t =", dict(s.t))

assert s.t(4) == direct and s.t.is_input(4)
needed = [s.a.node(x) for x in range(5)] + [target]
missing = [n for n in needed if scheduled.count(n) != 1]
assert not missing, (
    "every element the target depends on must be in exactly one calc step; "
    "not scheduled: %s" % missing)
assert not after_generate, (
    "generating must leave no calculated values behind: %s" % after_generate)
assert not dict(s.a), (
    "executing must leave no calculated value other than the target: %s"
    % dict(s.a))
