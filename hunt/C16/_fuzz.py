import random, sys, itertools, warnings
warnings.simplefilter("ignore")
import modelx as mx
assert mx.__file__.startswith("/tmp/wth2_C16"), mx.__file__

def build(rng, ncells, nargs, p_edge, p_uncached, p_input, nspaces=2):
    m = mx.new_model()
    spaces = [m.new_space("S%d" % i) for i in range(nspaces)]
    nodes = []
    cellsof = {}
    for c in range(ncells):
        sp = rng.choice(spaces)
        name = "c%d" % c
        cellsof[name] = sp
        for x in range(rng.randint(1, nargs)):
            nodes.append((name, x))
    rng.shuffle(nodes)
    deps = {}
    for i, n in enumerate(nodes):
        deps[n] = [nodes[j] for j in range(i) if rng.random() < p_edge]
    base = {n: rng.randint(1, 100) for n in nodes}
    LOG = []
    m.LOG = LOG
    m.DEPS = deps
    m.BASE = base
    m.SP = {name: sp for name, sp in cellsof.items()}
    uncached = set()
    for name, sp in cellsof.items():
        src = (
            "def {n}(x):\n"
            "    LOG.append(('{n}', x))\n"
            "    t = BASE[('{n}', x)]\n"
            "    for cn, a in DEPS[('{n}', x)]:\n"
            "        t += getattr(SP[cn], cn)(a)\n"
            "    return t\n").format(n=name)
        c = sp.new_cells(name, formula=src)
        if rng.random() < p_uncached:
            c.is_cached = False
            uncached.add(name)
    inputs = {}
    for n in nodes:
        if n[0] not in uncached and rng.random() < p_input:
            v = rng.randint(1000, 2000)
            getattr(cellsof[n[0]], n[0])[n[1]] = v
            inputs[n] = v
    return m, nodes, deps, base, cellsof, uncached, inputs, LOG

def direct(n, deps, base, inputs, memo):
    if n in memo: return memo[n]
    if n in inputs:
        memo[n] = inputs[n]
    else:
        memo[n] = base[n] + sum(direct(d, deps, base, inputs, memo) for d in deps[n])
    return memo[n]

def ancestors(targets, deps, inputs, uncached):
    """cached, non-input elements the targets depend on (incl. targets)"""
    seen = set(); res = set()
    st = list(targets)
    while st:
        n = st.pop()
        if n in seen: continue
        seen.add(n)
        if n in inputs: continue
        if n[0] not in uncached: res.add(n)
        st.extend(deps[n])
    return res

def cached_deps(n, deps, inputs, uncached):
    """nearest cached non-input dependencies, looking through uncached"""
    res = set(); st = list(deps[n]); seen=set()
    while st:
        d = st.pop()
        if d in seen: continue
        seen.add(d)
        if d in inputs: continue
        if d[0] in uncached: st.extend(deps[d])
        else: res.add(d)
    return res

def snapshot(cellsof):
    out = {}
    for name, sp in cellsof.items():
        c = getattr(sp, name)
        for k in c:   # keys
            kk = k if not isinstance(k, tuple) else k[0]
            out[(name, kk)] = c.is_input(kk)
    return out

def check(seed, **opts):
    rng = random.Random(seed)
    m, nodes, deps, base, cellsof, uncached, inputs, LOG = build(
        rng, rng.randint(1, 6), rng.randint(1, 4), rng.choice([0.1, 0.3, 0.6]),
        opts.get("p_uncached", 0.2), opts.get("p_input", 0.1))
    try:
        cand = [n for n in nodes if n[0] not in uncached]
        if not cand: return
        targets = rng.sample(cand, rng.randint(1, min(3, len(cand))))
        step = rng.randint(1, len(nodes) + 2)
        memo = {}
        tnodes = [getattr(cellsof[n[0]], n[0]).node(n[1]) for n in targets]
        if opts.get("recalc"): mx.set_recalc(True)
        actions = m.generate_actions(tnodes, step_size=step)
        snap = snapshot(cellsof)
        left = [n for n, isinp in snap.items() if not isinp]
        assert not left, ("generate left values", seed, left)
        assert set(n for n, i in snap.items() if i) == set(inputs), ("inputs changed", seed)
        anc = ancestors(targets, deps, inputs, uncached)
        pos = {}
        for i, (a, ns) in enumerate(actions):
            if a == "calc":
                for nd in ns:
                    key = (nd.obj.name, nd.args[0])
                    assert key not in pos, ("twice in calc", seed, key)
                    pos[key] = (i, len(pos))
        assert set(pos) >= anc, ("missing from calc", seed, anc - set(pos))
        for n in anc:
            for d in cached_deps(n, deps, inputs, uncached):
                assert pos[d][1] < pos[n][1], ("order", seed, d, n)
        del LOG[:]
        m.execute_actions(actions)
        cnt = {}
        for e in LOG:
            if e[0] not in uncached:
                cnt[e] = cnt.get(e, 0) + 1
        dup = {k: v for k, v in cnt.items() if v > 1}
        assert not dup, ("computed twice", seed, dup, step)
        snap = snapshot(cellsof)
        for t in targets:
            assert t in snap, ("target has no value", seed, t)
            v = getattr(cellsof[t[0]], t[0])(t[1])
            assert v == direct(t, deps, base, inputs, memo), ("wrong value", seed, t)
        left = [n for n, isinp in snap.items() if n not in targets and n not in inputs]
        assert not left, ("execute left values", seed, left, targets, step)
    finally:
        mx.set_recalc(False)
        m.close()

if __name__ == "__main__":
    opts = {}
    for a in sys.argv[3:]:
        k, v = a.split("="); opts[k] = float(v)
    bad = 0
    for seed in range(int(sys.argv[1]), int(sys.argv[2])):
        try:
            check(seed, **opts)
        except AssertionError as e:
            bad += 1
            if bad < 80: print("FAIL", str(e)[:60])
        except Exception as e:
            bad += 1
            if bad < 8: print("EXC", seed, type(e).__name__, str(e)[:300])
    print("done, bad =", bad)
