"""C16 - generate_actions under an active user stack trace (mx.start_stacktrace).

generate_actions finds the elements to schedule by reading the ENTER records
of the call stack trace.  When the user has already switched tracing on
(documented API, default maxlen=10000 records), generate_actions silently
reuses the user's bounded record deque: records beyond maxlen are dropped,
so elements - here the target itself - never make it into the action list,
are never pasted and are not cleaned up after generating.
"""
import warnings
warnings.simplefilter("ignore")
import modelx as mx

N = 6000          # 1 + 6000 elements -> 12002 trace records > default 10000

m = mx.new_model()
s = m.new_space("S")
s.N = N


@mx.defcells(space=s)
def leaf(i):
    return i


@mx.defcells(space=s)
def total():
    t = 0
    for i in range(N):
        t += leaf(i)
    return t


direct = s.total()
m.clear_all()

mx.start_stacktrace()                 # default maxlen=10000
try:
    actions = m.generate_actions([s.total.node()], step_size=1000)
finally:
    try:
        mx.stop_stacktrace()
    except Exception:
        pass

left = len(s.leaf) + len(s.total)
in_calc = [n for a, ns in actions if a == "calc" for n in ns]
n_target = sum(1 for n in in_calc if n == s.total.node())

m.execute_actions(actions)
others = len(s.leaf)
pasted = len(s.total) == 1 and s.total.is_input()

print("values left by generate_actions:", left)
print("elements in calc steps:", len(in_calc), "of", N + 1,
      "; target scheduled", n_target, "time(s)")
print("after execute: target pasted:", pasted, "; other values left:", others)

assert left == 0, (
    "generating the actions must leave no calculated values behind, "
    "%d are left" % left)
assert n_target == 1 and len(in_calc) == N + 1, (
    "every element the target depends on must be in exactly one calc step")
assert pasted and others == 0 and s.total() == direct, (
    "after executing, the target must hold the direct value and nothing else "
    "may be left")
