"""C16 - execute_actions with recalculation mode on (mx.set_recalc(True))
computes elements twice.

The 'paste' step goes through the ordinary assignment path
(CellsImpl.set_value_from_key).  In recalculation mode an assignment clears
the dependents of the assigned element and *recomputes* them at once.  A
pasted element whose dependents in the same step are scheduled for clearing
therefore has those dependents cleared by the paste, computed a second time,
and only then cleared by the 'clear' step.
"""
import warnings
warnings.simplefilter("ignore")
import modelx as mx

m = mx.new_model()
s = m.new_space("S")
m.LOG = LOG = []


@mx.defcells(space=s)
def a():
    LOG.append("a")
    return 1


@mx.defcells(space=s)
def b():
    LOG.append("b")
    return a() + 1


@mx.defcells(space=s)
def t():
    LOG.append("t")
    return b() + 1


@mx.defcells(space=s)
def u():
    LOG.append("u")
    return a() + t()


direct = s.u()
m.clear_all()
mx.set_recalc(True)
try:
    # topological order a, b, t, u ; step 1 = [a, b, t], step 2 = [u]
    # a is needed by u -> pasted in step 1; b is only needed by t -> cleared
    actions = m.generate_actions([s.u.node()], step_size=3)
    for act in actions:
        print(act)
    del LOG[:]
    m.execute_actions(actions)
finally:
    mx.set_recalc(False)

print("formulas run during execute_actions:", LOG)
assert s.u() == direct and s.u.is_input()
assert not (len(s.a) or len(s.b) or len(s.t))
twice = sorted(set(x for x in LOG if LOG.count(x) > 1))
assert not twice, (
    "executing the actions must never compute an element twice; "
    "computed more than once: %s" % twice)
