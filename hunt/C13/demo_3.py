"""C13 - ItemNode handles (Cells.node(), the 'actions' of generate_actions)
keep acting on the orphaned cells after the cells is gone.

The documented memory-optimised run is: generate_actions() on a small data
set, then set the entire data set, then execute_actions().  Setting the data
discards the ItemSpaces; execute_actions() then silently calculates and pastes
into the deleted cells (with the OLD data).

Run: cd /tmp/wth_C13 && PYTHONPATH=/tmp/wth_C13 /venv/bin/python FINDINGS/demo_3.py
"""
import warnings
import modelx as mx
from modelx.core.errors import DeletedObjectError

warnings.simplefilter("ignore")

m = mx.new_model("M")
S = m.new_space("S", formula=lambda i: None)
S.data = [1, 2, 3]                                   # small data set
S.new_cells("total", lambda: sum(data) * i)

target = S[1].total.node()                           # ItemNode handle
old_total = target.obj
actions = m.generate_actions([target])

S.data = list(range(100))        # the entire data set: S[1] is discarded

try:                             # the Interface handle is dead, as required
    old_total()
    raise SystemExit("unexpected: the old Cells handle still works")
except DeletedObjectError:
    pass
assert 1 not in S.itemspaces

# The property requires the node handles of the deleted cells to raise the
# deleted-object error as well, instead of acting on the orphaned cells.
try:
    m.execute_actions(actions)
    target_has_value = target.has_value()
    target_value = target.value if target_has_value else None
    raised = False
except DeletedObjectError:
    raised = True

assert raised, (
    "C13 violated: execute_actions()/ItemNode acted on the deleted cells "
    "S[1].total: has_value=%r value=%r (sum of the OLD data * 1 = 6; the live "
    "S[1].total has %r)"
    % (target_has_value, target_value, dict(S[1].total)))
print("OK")
