"""C13 - recalculation mode recomputes, and re-registers, the cells of an
ItemSpace that the same assignment has just discarded.

Run: cd /tmp/wth_C13 && PYTHONPATH=/tmp/wth_C13 /venv/bin/python FINDINGS/demo_1.py
"""
import modelx as mx
from modelx.core.errors import DeletedObjectError

m = mx.new_model("M")
A = m.new_space("A")
A.new_cells("v", lambda: 1)

# The ItemSpaces of S are built from the value of A.v()
S = m.new_space("S", formula=lambda i: {"refs": {"w": A.v()}})
S.A = A
S.new_cells("foo", lambda: A.v() * 10 + w)

A.v = 2
old_foo = S[1].foo              # handle to a cells inside the ItemSpace S[1]
assert old_foo() == 22

mx.set_recalc(True)
try:
    A.v = 3                     # S[1] depends on A.v(): it is discarded
finally:
    mx.set_recalc(False)

# The ItemSpace was discarded, the old handle is dead (this part holds) ...
try:
    old_foo.name
    raise SystemExit("unexpected: old handle still alive")
except DeletedObjectError:
    pass
assert S[1].foo is not old_foo

# ... so nothing of the discarded S[1].foo may be listed as depending on A.v()
# any more, and no value may have been computed for it after its deletion.
offending = []
for node in A.v.succs():
    try:
        node.obj.fullname       # raises for a deleted object
    except DeletedObjectError:
        offending.append((node.has_value(), node.value))

assert not offending, (
    "C13 violated: after S[1] was discarded, A.v.succs() still lists the "
    "deleted cells S[1].foo, which was recalculated after its deletion; "
    "(has_value, value) of the orphaned node(s): %r" % offending)
print("OK")
