"""C13 - a ReferenceNode (as returned by Cells.precedents()) of a reference that
has been deleted - directly, or as a derived reference because the base
reference was removed - still answers has_value()/value with the old value
instead of raising the deleted-object error.

Run: cd /tmp/wth_C13 && PYTHONPATH=/tmp/wth_C13 /venv/bin/python FINDINGS/demo_4.py
"""
import modelx as mx
from modelx.core.errors import DeletedObjectError

m = mx.new_model("M")
A = m.new_space("A")
A.x = 5
m.g = 7
A.new_cells("bar", lambda t: x + t + g)
B = m.new_space("B", bases=A)             # B.x is derived from A.x

assert A.bar(1) == 13 and B.bar(1) == 13

handles = {}
for n in A.bar.precedents(1):              # ReferenceNode objects
    handles["M.A.x" if n.obj.name == "x" else "M.g"] = n
for n in B.bar.precedents(1):
    if n.obj.name == "x":
        handles["M.B.x (derived)"] = n
proxy = mx.get_object("M.A.x", as_proxy=True)

del A.x         # deletes A.x and, indirectly, the derived B.x
del m.g         # deletes the model-level reference

assert "x" not in A.refs and "x" not in B.refs and "g" not in m.refs

# The ReferenceProxy handle behaves as the property requires ...
try:
    proxy.value
    raise SystemExit("unexpected: the proxy still works")
except DeletedObjectError:
    pass

# ... the ReferenceNode handles must do the same
alive = {}
for name, node in handles.items():
    try:
        alive[name] = (node.has_value(), node.value)
    except DeletedObjectError:
        pass

assert not alive, (
    "C13 violated: ReferenceNode handles of deleted references still act on "
    "the orphaned references; (has_value(), value): %r" % alive)
print("OK")
