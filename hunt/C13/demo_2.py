"""C13 - a dependency that crosses two open models is recorded in the trace
graph of one model only, so deleting a cells neither clears the values computed
from it in the other model, nor removes the deleted cells from the dependency
listing of the other model.

Run: cd /tmp/wth_C13 && PYTHONPATH=/tmp/wth_C13 /venv/bin/python FINDINGS/demo_2.py
"""
import modelx as mx
from modelx.core.errors import DeletedObjectError

# ---- (a) a value computed from the deleted cells survives -------------------
m1 = mx.new_model("M1")
A = m1.new_space("A")
A.new_cells("foo", lambda x: x * 2)

m2 = mx.new_model("M2")
S = m2.new_space("S")
S.a = A.foo                                 # reference to a cells of M1
S.new_cells("bar", lambda x: a(x) + 1)

B = m1.new_space("B")
B.b = S.bar                                 # reference to a cells of M2
B.new_cells("baz", lambda x: b(x) * 100)

assert B.baz(1) == 300                      # baz(1) <- bar(1) <- foo(1)

del A.foo                                   # delete the cells at the bottom

survivors = dict(B.baz)
assert dict(S.bar) == {}, "bar(1) was cleared (this part holds)"
assert survivors == {}, (
    "C13 violated: M1.B.baz still holds %r, a value computed from the "
    "deleted cells M1.A.foo (through M2.S.bar)" % survivors)

# ---- (b) the deleted cells stays in a dependency listing ---------------------
# (not reached on the unchanged code; kept to show the second symptom)
m3 = mx.new_model("M3")
P = m3.new_space("P")
P.new_cells("src", lambda x: x * 2)
m4 = mx.new_model("M4")
Q = m4.new_space("Q")
Q.s = P.src
Q.new_cells("dep", lambda x: s(x) + 1)
assert Q.dep(1) == 3
del Q.dep
for node in P.src.succs(1):
    try:
        node.obj.fullname
    except DeletedObjectError:
        raise AssertionError(
            "C13 violated: the deleted cells M4.Q.dep is still listed by "
            "M3.P.src.succs(1)")
P.src[1] = 5        # raises KeyError on the unchanged code
print("OK")
