"""C13 (error path) - an ItemSpace whose construction is interrupted by an
exception stays registered with its base space.  From then on every deletion
that has to discard the ItemSpaces built from that space (del space.cells_name,
del model.Space, ...) breaks off half-way with AttributeError: the object is
taken out of its container, but the handles obtained earlier keep working on
the orphaned object.

The interruption used here is an ordinary modelling error: a formula that
nests ItemSpaces without end, which modelx reports as a FormulaError
(RecursionError).

Run: cd /tmp/wth_C13 && PYTHONPATH=/tmp/wth_C13 /venv/bin/python FINDINGS/demo_5.py
"""
import warnings
import modelx as mx
from modelx.core.errors import DeletedObjectError, FormulaError

warnings.simplefilter("ignore")

m = mx.new_model("M")
S = m.new_space("S", formula=lambda i: None)
S.me = S            # in an ItemSpace of S, 'me' is that ItemSpace (relative)
S.new_cells("foo", lambda x: me[x].foo(x))      # S[1][1][1]... without end
S.new_cells("bar", lambda x: x)
bar = S.bar

try:
    S[1].foo(1)
    raise SystemExit("unexpected: the runaway formula returned")
except FormulaError:
    pass            # reported to the user; the model is expected to stay usable

# --- delete the space -------------------------------------------------------
try:
    del m.S
except Exception as e:
    print("note: 'del m.S' raised %s: %s" % (type(e).__name__, e))

assert "S" not in m.spaces, "S is still in the model: nothing was deleted"

alive = {}
for name, handle, use in [("M.S", S, lambda: S.fullname),
                          ("M.S.bar", bar, lambda: bar(1))]:
    try:
        alive[name] = use()
    except DeletedObjectError:
        pass

assert not alive, (
    "C13 violated: M.S is no longer in m.spaces (%r), but the handles taken "
    "before the deletion still act on the orphaned objects: %r"
    % (list(m.spaces), alive))
print("OK")
