"""C14 demo 2: a save that fails after the IO files were written has already
overwritten the data file of an IOSpec with an absolute path. The model at the
path is put back, but the data it reads is that of the save that failed:
the last good save is not intact, the failed save left residue.

Run: cd /tmp/wth3_C14 && PYTHONPATH=/tmp/wth3_C14 /venv/bin/python FINDINGS/demo_2.py
"""
import pathlib, shutil, tempfile, warnings
from unittest import mock
import pandas as pd
import modelx as mx

warnings.simplefilter("ignore")
results = {}

for fmt in ("zip", "dir"):
    tmp = pathlib.Path(tempfile.mkdtemp(prefix="c14_demo2_"))
    ext = tmp / "ext.csv"                   # absolute path
    P = tmp / ("model.zip" if fmt == "zip" else "model")

    m = mx.new_model("M")
    s = m.new_space("S")
    df0 = pd.DataFrame({"v": [1, 2, 3]})
    s.new_pandas("data", str(ext), df0, file_type="csv")
    m.gen = 0
    s.new_cells("f", formula=lambda x: x)
    s.f[1] = 10

    def save():
        if fmt == "zip":
            m.zip(P)
        else:
            m.write(P, log_input=True)

    save()                                  # the last good save: gen 0, [1, 2, 3]
    good = ext.read_bytes()

    # edit, then a save that is interrupted by an error at one file operation
    m.gen = 1
    m.update_pandas(m.S.data, pd.DataFrame({"v": [7, 8, 9]}))
    if fmt == "zip":
        # the last file operation of a zip save: moving the archive into place
        patcher = mock.patch("shutil.move", side_effect=OSError("injected: move"))
    else:
        # the last file written by a directory save with log_input=True
        from modelx.serialize import ziputil
        orig = ziputil.write_str_utf8
        def failing(string, path, *a, **k):
            if pathlib.Path(path).name == "_input_log.txt":
                raise OSError("injected: _input_log.txt")
            return orig(string, path, *a, **k)
        patcher = mock.patch("modelx.serialize.ziputil.write_str_utf8", failing)
    with patcher:
        try:
            save()
        except OSError as e:
            assert "injected" in str(e)
        else:
            raise SystemExit("save was expected to fail")
    m.close()

    # The model at the path is the last good one ...
    r = mx.read_model(P)
    gen, values = r.gen, list(r.S.data["v"])
    r.close()
    results[fmt] = (gen, values, ext.read_bytes() == good)

print(results)
assert all(gen == 0 for gen, _, _ in results.values())
assert all(values == [1, 2, 3] and same for _, values, same in results.values()), (
    "C14: after a save interrupted by an error the most recent completely "
    "written copy must be intact and the failed save must leave no residue; "
    "reading the path back gives (gen, data, data file unchanged): %r "
    "- gen 0 of the good save with the data of the failed save" % results)
