"""C14 demo 3 (minor): a failed load resets the session's current model and
current space to None, although the model the user was working in is still
open and untouched.

Run: cd /tmp/wth3_C14 && PYTHONPATH=/tmp/wth3_C14 /venv/bin/python FINDINGS/demo_3.py
"""
import pathlib, tempfile, warnings
import modelx as mx

warnings.simplefilter("ignore")
tmp = pathlib.Path(tempfile.mkdtemp(prefix="c14_demo3_"))

work = mx.new_model("Work")
space = work.new_space("S")
assert mx.cur_model() is work and mx.cur_space() is space

# a good save of another model, then one of its files gets damaged
other = mx.new_model("Other")
other.new_space("Q").new_cells("c", formula=lambda x: x)
other.write(tmp / "other")
other.close()
mx.cur_model("Work"); mx.cur_space("S")
assert mx.cur_model() is work and mx.cur_space() is space
(tmp / "other" / "Q" / "__init__.py").write_text("def broken(:\n")

try:
    mx.read_model(tmp / "other")
except SyntaxError:
    pass
else:
    raise SystemExit("load was expected to fail")

assert list(mx.get_models()) == ["Work"]
observed = (mx.cur_model(), mx.cur_space())
print(observed)

# what the user does next lands in a brand-new model instead of in Work.S
@mx.defcells
def foo(x):
    return x
print(foo.parent.fullname, sorted(mx.get_models()))

assert observed == (work, space), (
    "C14: a failed load must leave no residue in the session; the current "
    "model/space were (Work, Work.S) before the failed read_model and are %r "
    "after it; a following @mx.defcells went to %s"
    % (observed, foo.parent.fullname))
