"""C14 demo 4 (borderline usage): zip saves that report success but leave out
the data file of an IOSpec whose relative path climbs out of the model folder
("../x.csv"). Each such archive is incomplete and unreadable, yet it pushes
the good copies down the backup chain until the last good save is deleted.

Run: cd /tmp/wth3_C14 && PYTHONPATH=/tmp/wth3_C14 /venv/bin/python FINDINGS/demo_4.py
"""
import pathlib, tempfile, warnings, zipfile
import pandas as pd
import modelx as mx

warnings.simplefilter("ignore")
tmp = pathlib.Path(tempfile.mkdtemp(prefix="c14_demo4_")) / "proj"
tmp.mkdir()
P = tmp / "model.zip"


def readable(path):
    try:
        r = mx.read_model(path, name="CHK")
    except Exception as e:
        for mm in list(mx.get_models().values()):
            if mm.name.startswith("CHK"):
                mm.close()
        return "unreadable (%s)" % type(e).__name__
    gen = r.gen
    r.close()
    return gen


m = mx.new_model("M")
s = m.new_space("S")
m.gen = 0
m.zip(P)                                    # the last good save
assert readable(P) == 0

# the path is relative to the model folder, as documented for IOSpec.path
s.new_pandas("data", "../x.csv", pd.DataFrame({"v": [1, 2, 3]}), file_type="csv")
for gen in (1, 2, 3, 4):
    m.gen = gen
    m.zip(P)                                # every one of these "succeeds"

print(zipfile.ZipFile(P).namelist(), (tmp / "x.csv").exists())
state = {p.name: readable(p) for p in sorted(tmp.iterdir())}
print(state)
assert any(isinstance(v, int) for v in state.values()), (
    "C14: saving to a path that holds a saved model never loses it and a zip "
    "destination never holds a partially written archive; after four saves "
    "that all returned normally no complete copy is left: %r" % state)
