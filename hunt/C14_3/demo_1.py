"""C14 demo 1: a failed load of a model with an IOSpec at an absolute path
leaves that IO registered in the session; every later load of the same model
fails ("cannot add spec") and later saves of unrelated models rewrite the file.

Run: cd /tmp/wth3_C14 && PYTHONPATH=/tmp/wth3_C14 /venv/bin/python FINDINGS/demo_1.py
"""
import pathlib, shutil, tempfile, warnings
import pandas as pd
import modelx as mx

warnings.simplefilter("ignore")
tmp = pathlib.Path(tempfile.mkdtemp(prefix="c14_demo1_"))
ext1, ext2 = tmp / "ext1.csv", tmp / "ext2.csv"     # absolute paths
P = tmp / "model"

m = mx.new_model("M")
s = m.new_space("S")
s.new_pandas("a", str(ext1), pd.DataFrame({"v": [1, 2, 3]}), file_type="csv")
s.new_pandas("b", str(ext2), pd.DataFrame({"v": [4, 5, 6]}), file_type="csv")
m.write(P)
m.close()

# the saved model loads fine
m = mx.read_model(P)
assert list(m.S.a["v"]) == [1, 2, 3] and list(m.S.b["v"]) == [4, 5, 6]
m.close()
assert not mx.get_models()

failures = []
for missing in (ext1, ext2):
    # A file operation of the load fails: one data file is (temporarily) away
    hidden = missing.with_suffix(".hidden")
    shutil.move(missing, hidden)
    try:
        mx.read_model(P)
    except FileNotFoundError:
        pass
    else:
        raise SystemExit("load was expected to fail")
    shutil.move(hidden, missing)        # the cause of the failure is gone

    assert not mx.get_models(), "a half-loaded model stayed registered"

    # residue 1: a later save of an unrelated model must not write ext*.csv
    other = mx.new_model("Other")
    other.new_space("Q")
    before = {p: p.stat().st_mtime_ns for p in (ext1, ext2)}
    shutil.move(ext1, tmp / "keep1"); shutil.move(ext2, tmp / "keep2")
    other.write(tmp / "other")
    recreated = [p.name for p in (ext1, ext2) if p.exists()]
    for p in (ext1, ext2):
        if p.exists():
            p.unlink()
    shutil.move(tmp / "keep1", ext1); shutil.move(tmp / "keep2", ext2)
    other.close()

    # residue 2: the load that failed must be repeatable now
    try:
        m = mx.read_model(P)
        m.close()
        reload_error = None
    except Exception as e:
        reload_error = "%s: %s" % (type(e).__name__, e)
        for mm in list(mx.get_models().values()):
            mm.close()
    failures.append((missing.name, recreated, reload_error))

print(failures)
assert all(not rec and err is None for _, rec, err in failures), (
    "C14: a failed load must leave no residue and later saves and loads must "
    "behave normally; observed (file missing during the failed load, files "
    "written by the save of an unrelated model, error of the repeated load): "
    "%r" % failures)
