"""C04 demo 4: an input value inside an ItemSpace is lost when the ItemSpace
depends on an input value of another ItemSpace that is restored later.

Property (C04): after write + read the input values, including those inside
ItemSpaces, are reproduced, so that every cells returns the same values.

Scenario: A and B are parametric spaces; B comes first in the model.  The
parameter formula of B reads a[i].c(0) where a refers to A.  The user
assigns A[1].c[0] = 10 and then B[1].d[0] = 5.  Both inputs are in the model
when it is written (and both are written to the _dynamic_inputs files).

Observed: the reader restores the ItemSpace inputs space by space: B[1].d[0]
first, which creates B[1] and makes it depend on the *calculated* A[1].c(0);
then A[1].c[0] = 10 is restored, which invalidates B[1] and deletes it
together with the input just restored.  The model read back has no input in
B[1].d, and B[1].d(0) returns the formula value 10 instead of 5.
"""
import os
import tempfile
import modelx as mx

tmp = tempfile.mkdtemp()

m = mx.new_model("M")
B = m.new_space("B")
A = m.new_space("A", formula=lambda i: None)
A.new_cells("c", formula=lambda x: x)
B.a = A
B.formula = lambda i: {"refs": {"v": a[i].c(0)}}
B.new_cells("d", formula=lambda x: v + x)

A[1].c[0] = 10          # input inside ItemSpace A[1]
B[1].d[0] = 5           # input inside ItemSpace B[1]

assert dict(A[1].c) == {0: 10}
assert dict(B[1].d) == {0: 5}
assert B[1].d(0) == 5 and B[1].d(1) == 11

failures = []
for zipped in (False, True):
    path = os.path.join(tmp, "M.zip" if zipped else "M_dir")
    (m.zip if zipped else m.write)(path)
    assert dict(B[1].d) == {0: 5, 1: 11}           # writing changed nothing
    r = mx.read_model(path, name="R%d" % zipped)
    if r.A[1].c(0) != 10:
        failures.append("zip=%s: A[1].c(0) == %r, expected the input 10"
                        % (zipped, r.A[1].c(0)))
    if r.B[1].d(0) != 5:
        failures.append("zip=%s: B[1].d(0) == %r, expected the input value 5"
                        % (zipped, r.B[1].d(0)))
    if r.B[1].d(1) != 11:
        failures.append("zip=%s: B[1].d(1) == %r, expected 11"
                        % (zipped, r.B[1].d(1)))

for f in failures:
    print("VIOLATION:", f)

assert not failures, (
    "C04 requires input values inside ItemSpaces to be reproduced and all "
    "cells to return the same values after the round trip; %d violations, "
    "see above" % len(failures))
print("ok")
