"""C04 demo 3: an inherited 'auto' reference to a child space is bound to a
different object after the round trip.

Property (C04): after write + read, object-valued references point at the
corresponding objects and every cells returns the same values.

Scenario: Base has a child space C and the reference Base.cr = Base.C
(default mode 'auto').  Sub inherits from Base; child spaces are not
inherited, so the derived Sub.cr refers to Base.C.  Later Sub gets a child
space of its own that is also called C.  Sub.cr keeps referring to Base.C
(also after further edits of Base), and Sub.v() == cr.d() == 1.

Observed: in the model read back Sub.cr refers to Sub.C and Sub.v() == 2,
because the reader creates all spaces first and assigns Base.cr last, so
the 'auto' reference is derived while Sub.C already exists.
"""
import os
import tempfile
import modelx as mx

tmp = tempfile.mkdtemp()

m = mx.new_model("M")
Base = m.new_space("Base")
Base.new_space("C").new_cells("d", formula=lambda: 1)
Base.cr = Base.C                         # refmode 'auto'
Sub = m.new_space("Sub", bases=Base)
Sub.new_space("C").new_cells("d", formula=lambda: 2)
Sub.new_cells("v", formula=lambda: cr.d())

assert Sub.cr is Base.C
assert Sub.v() == 1

failures = []
for zipped in (False, True):
    path = os.path.join(tmp, "M.zip" if zipped else "M_dir")
    (m.zip if zipped else m.write)(path)
    assert Sub.cr is Base.C and Sub.v() == 1        # writing changed nothing
    r = mx.read_model(path, name="R%d" % zipped)
    if r.Sub.cr is not r.Base.C:
        failures.append("zip=%s: Sub.cr was %r before writing, is %r after "
                        "reading" % (zipped, Sub.cr, r.Sub.cr))
    if r.Sub.v() != Sub.v():
        failures.append("zip=%s: Sub.v() was %r before writing, is %r after "
                        "reading" % (zipped, Sub.v(), r.Sub.v()))

for f in failures:
    print("VIOLATION:", f)

assert not failures, (
    "C04 requires object-valued references to point at the corresponding "
    "objects and all cells to return the same values after the round trip; "
    "%d violations, see above" % len(failures))
print("ok")
