"""C04 demo 2: a reference to an ItemSpace (or to a cells inside one) does
not survive the round trip when the parametric space has references of its
own.

Property (C04): after write + read, object-valued references point at the
corresponding objects, every cells returns the same values, and a model
written without error can always be read back.

Scenario: space O holds a reference to S[2].c, a cells of an ItemSpace of
the parametric space S.  S also has an ordinary literal reference k.
Nothing is ever deleted by the user.

Observed (A): the reader restores O.q first (which creates S[2]), then
assigns S.k, which wipes the ItemSpaces of S.  O.q of the model read back is
a dead "null object" and O.u() raises DeletedObjectError.
Observed (B): when the parameter formula of S uses k, creating S[2] during
the restoration of O.q fails with NameError, i.e. the written model cannot
be read back at all.
"""
import os
import tempfile
import modelx as mx

tmp = tempfile.mkdtemp()
failures = []

# ---------------------------------------------------------------- (A)
m = mx.new_model("A")
O = m.new_space("O")
S = m.new_space("S", formula=lambda i: None)
S.new_cells("c", formula=lambda x: x * i * k)
S.k = 10                       # a plain literal reference of S
O.q = S[2].c                   # object-valued reference into an ItemSpace
O.new_cells("u", formula=lambda: q(1))
assert O.u() == 20 and O.q is S[2].c

for zipped in (False, True):
    path = os.path.join(tmp, "A.zip" if zipped else "A_dir")
    (m.zip if zipped else m.write)(path)            # written without error
    r = mx.read_model(path, name="A_r%d" % zipped)
    if r.O.q is not r.S[2].c:
        failures.append("(A, zip=%s) O.q should be the cells S[2].c of the "
                        "model read back, but is %r" % (zipped, r.O.q))
    try:
        v = r.O.u()
        if v != 20:
            failures.append("(A, zip=%s) O.u() == %r, expected 20"
                            % (zipped, v))
    except Exception as e:
        failures.append("(A, zip=%s) O.u() returned 20 before writing, now "
                        "raises %s" % (zipped, type(e).__name__))

# ---------------------------------------------------------------- (B)
m = mx.new_model("B")
O = m.new_space("O")
S = m.new_space("S", formula=lambda i: {"refs": {"j": k * i}})
S.k = 10
S.new_cells("c", formula=lambda x: x * j)
O.q = S[2]
O.new_cells("u", formula=lambda: q.c(1))
assert O.u() == 20 and O.q is S[2]

path = os.path.join(tmp, "B_dir")
m.write(path)                                       # written without error
try:
    r = mx.read_model(path, name="B_r")
    assert r.O.u() == 20
except Exception as e:
    failures.append("(B) written without error but cannot be read back: "
                    "%s" % type(e).__name__)

for f in failures:
    print("VIOLATION:", f)

assert not failures, (
    "C04 requires object-valued references to point at the corresponding "
    "objects after the round trip, all cells to return the same values, and "
    "a written model to be readable; %d violations, see above"
    % len(failures))
print("ok")
