"""C04 demo 1: documentation text is embedded in the written source unescaped.

Property (C04): writing a model and reading it back reproduces the
documentation strings of the model, its spaces and its cells, and a model
that was written without error can always be read back.

Observed: Model.doc, Space.doc and the doc of a lambda cells are pasted
between triple quotes without escaping.  A backslash in the text is
re-interpreted as an escape sequence when the file is parsed (the text
changes silently), and a text that ends with a double quote (or contains
three of them) yields a file that cannot be parsed at all.
"""
import os
import tempfile
import modelx as mx

tmp = tempfile.mkdtemp()
failures = []


def roundtrip(model, zipped):
    path = os.path.join(tmp, model.name + ("_z.zip" if zipped else "_d"))
    (mx.zip_model if zipped else mx.write_model)(model, path)   # no error
    return mx.read_model(path, name=model.name + ("_rz" if zipped else "_rd"))


def build(name, doc):
    m = mx.new_model(name)
    m.doc = doc
    s = m.new_space("S")
    s.doc = doc
    c = s.new_cells("c", formula=lambda x: x)
    c.doc = doc
    return m


# (a) backslashes: plain documentation text such as a LaTeX formula or a
#     Windows path
doc_a = r"discount factor \nu = 1/(1+i), see C:\temp\notes.txt"
# (b) text that ends with a double quote
doc_b = 'the so called "base scenario"'

for tag, doc in (("a", doc_a), ("b", doc_b)):
    for zipped in (False, True):
        m = build("M" + tag + ("z" if zipped else "d"), doc)
        assert m.doc == doc and m.S.doc == doc and m.S.c.doc == doc
        try:
            r = roundtrip(m, zipped)
        except Exception as e:
            failures.append("(%s, zip=%s) written without error but cannot "
                            "be read back: %s: %s"
                            % (tag, zipped, type(e).__name__, e))
            continue
        for what, got in (("Model.doc", r.doc), ("Space.doc", r.S.doc),
                          ("lambda Cells.doc", r.S.c.doc)):
            if got != doc:
                failures.append("(%s, zip=%s) %s changed: %r -> %r"
                                % (tag, zipped, what, doc, got))

for f in failures:
    print("VIOLATION:", f)

assert not failures, (
    "C04 requires that documentation strings survive a write/read round "
    "trip unchanged and that a model written without error can be read "
    "back; %d violations, see above" % len(failures))
print("ok")
