"""C03 demo 3: the value of a derived reference to a model object is bound
relative to the sub space only at the moment the reference is (re-)derived.
It is not re-derived when the object it should be bound to appears, disappears
or is renamed, nor when the inheritance of a parent space changes.  So the same
defined members and bases give different derived references depending on the
order of the edits, and a derived reference can end up as a null object although
the base space's reference is alive.

Run:  cd /tmp/wth_C03 && PYTHONPATH=/tmp/wth_C03 /venv/bin/python FINDINGS/demo_3.py
"""
import modelx as mx


def rel(obj):
    """Dotted name without the model name, or a marker for a dead object"""
    try:
        return obj.fullname.split(".", 1)[1]
    except Exception as e:      # DeletedObjectError of a null object
        return "<%s>" % type(e).__name__


problems = []


def expect(title, incremental, scratch):
    print("%-58s incremental: %-22s from scratch: %s"
          % (title, incremental, scratch))
    if incremental != scratch:
        problems.append("%s: derived reference is %s, derivation from scratch "
                        "of the same members and bases gives %s"
                        % (title, incremental, scratch))


# ---------------------------------------------------------------------------
# 1. The counterpart of the referred object is created after the derivation

m = mx.new_model()
A = m.new_space("A")
A.new_space("c")
A.r = A.c                                   # 'auto' mode: relative if possible
A.new_cells("who", formula=lambda: r.fullname.split(".", 1)[1])
B = m.new_space("B", bases=A)
assert rel(B.r) == "A.c"                    # B has no child 'c' yet: fine
B.new_space("c")
inc1, inc1_eval = rel(B.r), B.who()

s = mx.new_model()                          # same end state, other order
A_ = s.new_space("A")
A_.new_space("c")
A_.r = A_.c
A_.new_cells("who", formula=lambda: r.fullname.split(".", 1)[1])
B_ = s.new_space("B")
B_.new_space("c")
B_.add_bases(A_)
expect("1. B.c created after B derived r from A", inc1, rel(B_.r))
expect("1b. derived B.who() (formula: r.fullname)", inc1_eval, B_.who())

# ---------------------------------------------------------------------------
# 2. The counterpart is deleted: the derived reference dangles, although the
#    reference of the base space (A.r -> A.c) is alive

del B_.c
expect("2. B.c deleted while B.r was bound to it", rel(B_.r), "A.c")
assert rel(A_.r) == "A.c"

# ---------------------------------------------------------------------------
# 3. The counterpart is renamed: B.r follows the renamed space, although B has
#    no child named like the one A.r refers to any more

t = mx.new_model()
A3 = t.new_space("A")
A3.new_space("c")
A3.r = A3.c
B3 = t.new_space("B")
B3.new_space("c")
B3.add_bases(A3)
assert rel(B3.r) == "B.c"
B3.c.rename("d")
expect("3. B.c renamed to B.d (A.r is still A.c)", rel(B3.r), "A.c")

# ---------------------------------------------------------------------------
# 4. The relative binding depends on the inheritance of the parent spaces,
#    but a child space is not re-derived when its parent gets a base

u = mx.new_model()
P = u.new_space("P")
PA = P.new_space("A")
P.new_space("other")
PA.r = P.other
Q = u.new_space("Q")
Q.new_space("other")
QA = Q.new_space("A", bases=PA)
Q.add_bases(P)
inc4 = rel(QA.r)

v = mx.new_model()
P_ = v.new_space("P")
PA_ = P_.new_space("A")
P_.new_space("other")
PA_.r = P_.other
Q_ = v.new_space("Q")
Q_.new_space("other")
Q_.add_bases(P_)
QA_ = Q_.new_space("A", bases=PA_)
expect("4. Q.add_bases(P) after Q.A derived r from P.A", inc4, rel(QA_.r))

assert not problems, (
    "incremental maintenance of derived references differs from derivation "
    "from scratch:\n  - " + "\n  - ".join(problems))
print("OK")
