"""C03 demo 5: a 'relative' reference that a sub space cannot re-bind is refused
when it is created (and when the sub space is derived from scratch), but it is
accepted
  (a) when an existing reference of that name is changed, and
  (b) when another sub space that overrides the name happens to be visited first.
The sub space then holds a derived copy that derivation from scratch cannot
produce (add_bases / read_model of the written model raise).

Run:  cd /tmp/wth_C03 && PYTHONPATH=/tmp/wth_C03 /venv/bin/python FINDINGS/demo_5.py
"""
import os
import tempfile
import modelx as mx

problems = []

# ---------------------------------------------------------------------------
# (a) change of an existing reference

m = mx.new_model()
Z = m.new_space("Z")                # outside A: cannot be re-bound in a sub of A
A = m.new_space("A")
B = m.new_space("B", bases=A)

try:
    A.relref(y=Z)                   # new reference: refused, nothing changes
    new_refused = False
except ValueError as e:
    new_refused = True
    print("new:     A.relref(y=Z) refused:", e)
assert new_refused and "y" not in B.refs

A.x = 1                             # B.x derived
try:
    A.relref(x=Z)                   # same edit on an existing name
    change_refused = False
    print("change:  A.relref(x=Z) accepted; derived B.x =", B.x)
except ValueError as e:
    change_refused = True
    print("change:  A.relref(x=Z) refused:", e)

if not change_refused:
    # the same defined members and bases, derived from scratch
    s = mx.new_model()
    Z_ = s.new_space("Z")
    A_ = s.new_space("A")
    A_.relref(x=Z_)
    B_ = s.new_space("B")
    try:
        B_.add_bases(A_)
        print("scratch: B.add_bases(A) accepted; B.x =", B_.x)
    except ValueError as e:
        print("scratch: B.add_bases(A) refused:", e)
        problems.append(
            "(a) changing A.x to a relative reference to Z was accepted with "
            "sub space B derived, but deriving B from scratch is refused: %s"
            % e)
    path = os.path.join(tempfile.mkdtemp(), "model")
    m.write(path)
    try:
        mx.read_model(path, name="Loaded").close()
    except ValueError as e:
        print("read_model of the written model:", e)
        problems.append("(a) the model cannot be read back: %s" % e)

# ---------------------------------------------------------------------------
# (b) new reference, a sub space overriding the name comes first

n = mx.new_model()
Z = n.new_space("Z")
A = n.new_space("A")
B1 = n.new_space("B1", bases=A)
B2 = n.new_space("B2", bases=A)
B1.y = 0                            # B1 defines y itself
try:
    A.relref(y=Z)
    print("new, B1 overriding: accepted; derived B2.y =", B2.y)
    problems.append(
        "(b) A.relref(y=Z) was accepted although sub space B2 (which does "
        "not override y) cannot re-bind it; without B1.y it is refused")
except ValueError as e:
    print("new, B1 overriding: refused:", e)

assert not problems, (
    "incremental maintenance accepts what derivation from scratch refuses:"
    "\n  - " + "\n  - ".join(problems))
print("OK")
