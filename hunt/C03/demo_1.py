"""C03 demo 1: remove_bases() that makes the C3 order of a *descendant*
impossible fails half way: the space whose base was removed has already been
re-derived along its new linearisation, while `bases` still reports the old one.

Run:  cd /tmp/wth_C03 && PYTHONPATH=/tmp/wth_C03 /venv/bin/python FINDINGS/demo_1.py
"""
import modelx as mx


def c3(name, direct):
    """Reference C3 linearisation over a dict name -> ordered direct bases"""
    seqs = [c3(b, direct) for b in direct[name]] + [list(direct[name])]
    res = []
    while True:
        seqs = [s for s in seqs if s]
        if not seqs:
            return [name] + res
        for s in seqs:
            cand = s[0]
            if not any(cand in t[1:] for t in seqs):
                break
        else:
            raise TypeError("no C3 order")
        res.append(cand)
        for s in seqs:
            if s[0] == cand:
                del s[0]


m = mx.new_model()
E = m.new_space("E")
E.new_cells("foo", formula="lambda: 'E'")
C = m.new_space("C")
C.new_cells("foo", formula="lambda: 'C'")
D = m.new_space("D", bases=[E])
B = m.new_space("B", bases=[D, C, E])       # B, D, C, E
A = m.new_space("A", bases=[B, C, E])       # A, B, D, C, E

direct = {"E": [], "C": [], "D": ["E"], "B": ["D", "C", "E"],
          "A": ["B", "C", "E"]}
defined_foo = {"E": "lambda: 'E'", "C": "lambda: 'C'"}


def check(when):
    """`bases` is a C3 linearisation, and each derived foo carries the formula
    of the first space in the *reported* bases that defines foo."""
    for s in (A, B, D):
        reported = [b.name for b in s.bases]
        first = next(n for n in reported if n in defined_foo)
        assert s.foo.formula.source == defined_foo[first], (
            "%s: %s.bases reports %s, so the derived %s.foo must carry the "
            "formula of %s (%s), but it carries %s and evaluates to %r"
            % (when, s.name, reported, s.name, first, defined_foo[first],
               s.foo.formula.source, s.foo()))


check("initially")
assert [b.name for b in B.bases] == c3("B", direct)[1:]
assert B.foo() == "C"

# Without E as its direct base, B linearises as B, D, E, C. That is a legal
# order for B, but A(B, C, E) has no C3 order any more (B wants E before C,
# A wants C before E).  Either the removal is refused with nothing changed,
# or it is carried out completely.
try:
    B.remove_bases(E)
    removed = True
except TypeError as e:
    print("remove_bases raised:", e)
    removed = False

if removed:
    direct["B"] = ["D", "C"]

print("B.bases:", [b.name for b in B.bases], " B.foo() ->", B.foo())
print("A.bases:", [b.name for b in A.bases], " A.foo() ->", A.foo())

for s in (A, B, D):
    assert [b.name for b in s.bases] == c3(s.name, direct)[1:], (
        "%s.bases %s is not the C3 linearisation %s"
        % (s.name, [b.name for b in s.bases], c3(s.name, direct)[1:]))
check("after the refused remove_bases")
print("OK")
