"""C03 demo 2: deleting a space whose removal makes the C3 order of a descendant
impossible fails half way: the space is gone from the model, but it is still
reported among the `bases` of its former sub spaces, which keep (and hand on)
derived members of the deleted space, and a sub space re-derived before the
failure contradicts its own reported `bases`.

Run:  cd /tmp/wth_C03 && PYTHONPATH=/tmp/wth_C03 /venv/bin/python FINDINGS/demo_2.py
"""
import modelx as mx

m = mx.new_model()
F = m.new_space("F")
F.new_cells("foo", formula="lambda: 'F'")
D = m.new_space("D")
D.new_cells("foo", formula="lambda: 'D'")
E = m.new_space("E", bases=[F])
C = m.new_space("C", bases=[F])
C.new_cells("bar", formula="lambda: 'bar of C'")
B = m.new_space("B", bases=[E, D, C])       # B, E, D, C, F
A = m.new_space("A", bases=[B, D, F])       # A, B, E, D, C, F

assert [b.name for b in B.bases] == ["E", "D", "C", "F"]
assert [b.name for b in A.bases] == ["B", "E", "D", "C", "F"]
assert B.foo() == "D" and A.foo() == "D" and A.bar() == "bar of C"

# Without C, B(E, D) linearises as B, E, F, D (F before D), while A(B, D, F)
# needs D before F: A has no C3 order any more.
try:
    del m.C
    deleted = True
except TypeError as e:
    print("del m.C raised:", e)
    deleted = False

live = list(m.spaces.values())
print("spaces of the model:", [s.name for s in live])


def names(spaces):
    return [s.name if any(s is t for t in live) else "<deleted space>"
            for s in spaces]


problems = []
for s in (A, B):
    reported = names(s.bases)
    print("%s.bases: %s   cells: %s" % (
        s.name, reported,
        {k: c.formula.source for k, c in s.cells.items()}))

    # (1) bases reports a linearisation over the model's spaces
    if "<deleted space>" in reported:
        problems.append(
            "%s.bases reports a space that is not in the model any more: %s"
            % (s.name, reported))

    # (2) exactly the names defined in the (live) base spaces are derived
    expected = set()
    for b in s.bases:
        if any(b is t for t in live):
            expected |= set(b.cells)
    if set(s.cells) != expected:
        problems.append(
            "%s contains cells %s, but its base spaces in the model define %s"
            % (s.name, sorted(s.cells), sorted(expected)))

    # (3) derived foo carries the formula of the first reported base
    #     defining it (D and F define foo)
    first = next(n for n in reported if n in ("D", "F"))
    if s.foo() != first:
        problems.append(
            "%s.bases reports %s before the other definer of foo, "
            "but %s.foo() evaluates to %r"
            % (s.name, first, s.name, s.foo()))

# The leftover is handed on to new sub spaces
X = m.new_space("X", bases=[A])
print("new X(A): bases %s cells %s" % (names(X.bases), sorted(X.cells)))
if "bar" in X.cells and "C" not in [s.name for s in live]:
    problems.append(
        "a space created after the deletion derives 'bar', which only the "
        "deleted space C defined")

assert not problems, (
    "after `del m.C` (%s):\n  - " % ("carried out" if deleted else "refused")
    + "\n  - ".join(problems))
print("OK")
