import random, sys
sys.path.insert(0, "scratch")
from fuzz import c3
def ok(bases):
    try:
        for n in bases: c3(n, bases)
        return True
    except TypeError:
        return False
rng = random.Random(2)
names = list("ABCDEF")
best = None
for trial in range(400000):
    bases = {}
    for i, n in enumerate(names):
        cand = names[i+1:]
        k = rng.randint(0, min(3, len(cand)))
        bases[n] = rng.sample(cand, k)
    if not ok(bases): continue
    for x in names:
        nb = {k: [b for b in v if b != x] for k, v in bases.items() if k != x}
        if not ok(nb):
            size = sum(len(v) for v in bases.values())
            if best is None or size < best[0]:
                best = (size, bases, x); print(best)
print(best)
