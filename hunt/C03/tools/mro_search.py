import random, itertools, sys
sys.path.insert(0, "scratch")
from fuzz import c3

def ok(bases):
    try:
        for n in bases:
            c3(n, bases)
        return True
    except TypeError:
        return False

rng = random.Random(1)
N = 5
names = list("ABCDE")
found = 0
for trial in range(200000):
    # node i may have bases among nodes with larger index (acyclic)
    bases = {}
    for i, n in enumerate(names):
        cand = names[i+1:]
        k = rng.randint(0, min(3, len(cand)))
        bases[n] = rng.sample(cand, k)
    if not ok(bases):
        continue
    for n in names:
        for b in bases[n]:
            nb = {k: list(v) for k, v in bases.items()}
            nb[n].remove(b)
            if not ok(nb):
                print("FOUND", bases, "remove", b, "from", n)
                found += 1
                break
        if found: break
    if found: break
print("found", found)
