"""Random op-sequence fuzzer for property C03 (top-level spaces + optional children)."""
import sys, random, traceback, itertools, collections
import modelx as mx
mx.set_recursion(40)

import os
SPACES = os.environ.get("FZ_SPACES", "A B C D").split()
CELLS = ["foo", "bar", "baz"]
REFS = ["x", "y"]
BODIES = ["%d", "x + %d", "y * %d", "foo() + %d", "bar() + %d", "baz() + x + %d"]


def c3(name, bases_of):
    seqs = [c3(b, bases_of) for b in bases_of[name]] + [list(bases_of[name])]
    res = []
    while True:
        ne = [s for s in seqs if s]
        if not ne:
            return [name] + res
        for s in ne:
            cand = s[0]
            if any(cand in t[1:] for t in ne):
                cand = None
            else:
                break
        if cand is None:
            raise TypeError("no mro")
        res.append(cand)
        for s in ne:
            if s[0] == cand:
                del s[0]


class Oracle:
    def __init__(self):
        self.bases = {}     # space -> [direct bases]
        self.cells = {}     # space -> {name: (src, cached)}
        self.refs = {}      # space -> {name: (value_repr, refmode)}
        self.globals = {}
        self.formulas = set()

    def copy(self):
        o = Oracle()
        o.bases = {k: list(v) for k, v in self.bases.items()}
        o.cells = {k: dict(v) for k, v in self.cells.items()}
        o.refs = {k: dict(v) for k, v in self.refs.items()}
        o.globals = dict(self.globals); o.formulas = set(self.formulas)
        return o


def read_defined(m):
    """Read the defined state from the actual model"""
    o = Oracle()
    for s in all_spaces(m):
        n = relname(s)
        o.bases[n] = [relname(b) for b in s._direct_bases]
        o.cells[n] = {k: (c.formula.source, c.is_cached) for k, c in s.cells.items() if c._is_defined()}
        o.refs[n] = {}
        for k in s._own_refs:
            p = s._get_object(k, as_proxy=True)
            if not p.is_derived():
                o.refs[n][k] = (valrepr(p.value), p.refmode)
        if s.formula is not None:
            o.formulas.add(n)
    o.globals = {k: v for k, v in m.refs.items() if k in REFS}
    return o


def all_spaces(m):
    out = []
    stack = list(m.spaces.values())
    while stack:
        s = stack.pop()
        out.append(s)
        stack.extend(s.named_spaces.values())
    return out


def relname(obj):
    return obj.fullname.split(".", 1)[1]


def valrepr(v):
    if isinstance(v, (mx.core.base.Interface,)):
        if not v._is_valid():
            return ("obj", "<null>")
        return ("obj", relname(v))
    return ("lit", v)


def read_actual(m):
    """Everything (defined + derived)"""
    res = {}
    for s in all_spaces(m):
        n = relname(s)
        res[n] = {
            "mro": [relname(b) for b in s.bases],
            "cells": {k: (c.formula.source, c.is_cached, c._is_derived()) for k, c in s.cells.items()},
            "refs": {},
        }
        for k in s._own_refs:
            p = s._get_object(k, as_proxy=True)
            res[n]["refs"][k] = (valrepr(p.value), p.refmode, p.is_derived())
    return res


def evaluate(m):
    res = {}
    for s in all_spaces(m):
        n = relname(s)
        for k, c in s.cells.items():
            try:
                v = c()
                if isinstance(v, mx.core.base.Interface):
                    v = relname(v)
                res[(n, k)] = ("ok", v)
            except Exception as e:
                res[(n, k)] = ("err", type(e).__name__)
        if s.formula is not None:
            try:
                item = s[1]
                res[(n, "[1].bases")] = [relname(b) for b in item.bases]
                res[(n, "[1].names")] = sorted(item.cells) + sorted(item._own_refs)
                for k, c in item.cells.items():
                    try:
                        v = c()
                        if isinstance(v, mx.core.base.Interface):
                            v = v.fullname.split(".", 1)[1]
                        res[(n, "[1]." + k)] = ("ok", v)
                    except Exception as e:
                        res[(n, "[1]." + k)] = ("err", type(e).__name__)
            except Exception as e:
                res[(n, "[1]")] = ("err", type(e).__name__)
    return res


def rebuild(o):
    """Derivation from scratch in a fresh model"""
    m = mx.new_model()
    order = sorted(o.bases, key=lambda n: n.count("."))
    for n in order:
        if "." in n:
            p, c = n.rsplit(".", 1)
            m._get_object(p).new_space(c)
        else:
            m.new_space(n)
    for n in order:
        s = m._get_object(n)
        for k, (src, cached) in o.cells[n].items():
            s.new_cells(k, formula=src, is_cached=cached)
    for k, v in o.globals.items():
        setattr(m, k, v)
    for n in o.formulas:
        m._get_object(n).formula = "lambda i: None"
    pending = []
    for n in order:
        s = m._get_object(n)
        for k, ((kind, v), mode) in o.refs[n].items():
            if kind == "obj":
                pending.append((s, k, v, mode))
            else:
                s.set_ref(k, v, mode)
    for s, k, v, mode in pending:
        if v == "<null>":
            raise LookupError("dangling")
        try:
            obj = m._get_object(v)
        except Exception:
            raise LookupError("dangling")
        s.set_ref(k, obj, mode)
    # add bases in topological order
    done = set()
    todo = [n for n in order]
    while todo:
        for n in todo:
            if all(b in done for b in o.bases[n]):
                break
        else:
            raise RuntimeError("cycle")
        todo.remove(n)
        done.add(n)
        if o.bases[n]:
            m._get_object(n).add_bases(*[m._get_object(b) for b in o.bases[n]])
    return m


def expected_pure(o):
    """Pure python derivation: cells formula & literal refs"""
    res = {}
    for n in o.bases:
        mro = c3(n, o.bases)
        cells = {}
        refs = {}
        for b in reversed(mro):
            for k, v in o.cells[b].items():
                cells[k] = (v[0], v[1], b != n)
            for k, v in o.refs[b].items():
                refs[k] = (v[0], v[1], b != n)
        res[n] = {"mro": mro[1:], "cells": cells, "refs": refs}
    return res


class Failure(Exception):
    pass


def compare(m, o, log, check_eval=True):
    act = read_actual(m)
    pure = expected_pure(o)
    if set(act) != set(pure):
        raise Failure("space sets differ %s vs %s" % (sorted(act), sorted(pure)))
    for n in pure:
        if act[n]["mro"] != pure[n]["mro"]:
            raise Failure("mro of %s: actual %s expected %s" % (n, act[n]["mro"], pure[n]["mro"]))
        if act[n]["cells"] != pure[n]["cells"]:
            raise Failure("cells of %s:\n actual   %s\n expected %s" % (n, act[n]["cells"], pure[n]["cells"]))
        a = act[n]["refs"]; e = pure[n]["refs"]
        if set(a) != set(e):
            raise Failure("ref names of %s: actual %s expected %s" % (n, sorted(a), sorted(e)))
        for k in e:
            if a[k][1:] != e[k][1:]:
                raise Failure("ref %s.%s mode/derived: actual %s expected %s" % (n, k, a[k], e[k]))
            if e[k][0][0] == "lit" and a[k][0] != e[k][0]:
                raise Failure("ref %s.%s value: actual %s expected %s" % (n, k, a[k], e[k]))
    # from scratch
    try:
        m2 = rebuild(o)
    except LookupError:
        return "tainted"
    try:
        act2 = read_actual(m2)
        for n in act:
            if act[n] != act2[n]:
                raise Failure("incremental != scratch in %s:\n inc     %s\n scratch %s" % (n, act[n], act2[n]))
        if check_eval:
            ev = evaluate(m)
            ev2 = evaluate(m2)
            if ev != ev2:
                diff = {k: (ev.get(k), ev2.get(k)) for k in set(ev) | set(ev2) if ev.get(k) != ev2.get(k)}
                raise Failure("evaluation differs (inc, scratch): %s" % diff)
    finally:
        m2.close()
    return "ok"


def gen_op(rng, m, o, nested):
    """Return (description, callable, oracle-update callable)"""
    names = list(o.bases)
    kinds = ["new_space", "add_bases", "remove_bases", "del_space",
             "new_cells", "set_formula", "del_cells", "set_ref", "del_ref",
             "rename_cells", "sort_cells", "set_cached", "eval", "rename_space",
             "new_cells", "set_formula", "del_cells", "set_ref", "add_bases",
             "set_global", "space_formula", "rename_child"]
    kind = rng.choice(kinds)
    if not names and kind != "new_space":
        kind = "new_space"

    def src(name):
        body = rng.choice(BODIES) % rng.randint(1, 9)
        if rng.random() < 0.3:
            return "def %s(): return %s" % (name, body)
        return "lambda: " + body

    if kind == "new_space":
        cand = [n for n in SPACES if n not in o.bases]
        if nested:
            cand += [p + ".k" for p in names if "." not in p and p + ".k" not in o.bases]
        if not cand:
            return None
        n = rng.choice(cand)
        bs = rng.sample(names, k=min(len(names), rng.choice([0, 0, 1, 1, 2])))
        def do():
            bases = [m._get_object(b) for b in bs]
            if "." in n:
                p, c = n.rsplit(".", 1)
                m._get_object(p).new_space(c, bases=bases)
            else:
                m.new_space(n, bases=bases)
        def upd():
            o.bases[n] = list(bs); o.cells[n] = {}; o.refs[n] = {}
        return ("new_space %s bases=%s" % (n, bs), do, upd)

    if kind == "set_global":
        r = rng.choice(REFS)
        if r in o.globals and rng.random() < 0.5:
            return ("del_global %s" % r, lambda: delattr(m, r), lambda: o.globals.pop(r))
        v = rng.randint(11, 19)
        return ("set_global %s = %s" % (r, v), lambda: setattr(m, r, v), lambda: o.globals.__setitem__(r, v))
    s = rng.choice(names)
    if kind == "space_formula":
        if s in o.formulas:
            def do():
                del m._get_object(s).formula
            return ("del_space_formula %s" % s, do, lambda: o.formulas.discard(s))
        def do():
            m._get_object(s).formula = "lambda i: None"
        return ("set_space_formula %s" % s, do, lambda: o.formulas.add(s))
    if kind == "rename_child":
        if "." not in s:
            return None
        p, c = s.rsplit(".", 1)
        new = rng.choice(["k", "j", "h"])
        if p + "." + new in o.bases:
            return None
        def upd():
            def rn(n):
                if n == s: return p + "." + new
                return n
            for d in (o.bases, o.cells, o.refs):
                for k in list(d):
                    if rn(k) != k:
                        d[rn(k)] = d.pop(k)
            for k in o.bases:
                o.bases[k] = [rn(b) for b in o.bases[k]]
            if s in o.formulas:
                o.formulas.discard(s); o.formulas.add(rn(s))
            o.refs = read_defined(m).refs
        return ("rename_child %s -> %s" % (s, new), lambda: m._get_object(s).rename(new), upd)
    if kind == "add_bases":
        cand = [b for b in names if b != s and b not in o.bases[s]]
        if not cand:
            return None
        bs = rng.sample(cand, k=min(len(cand), rng.choice([1, 1, 2])))
        return ("add_bases %s %s" % (s, bs),
                lambda: m._get_object(s).add_bases(*[m._get_object(b) for b in bs]),
                lambda: o.bases[s].extend(bs))
    if kind == "remove_bases":
        if not o.bases[s]:
            return None
        bs = rng.sample(o.bases[s], k=rng.choice([1, min(2, len(o.bases[s]))]))
        def upd():
            for b in bs:
                o.bases[s].remove(b)
        return ("remove_bases %s %s" % (s, bs),
                lambda: m._get_object(s).remove_bases(*[m._get_object(b) for b in bs]), upd)
    if kind == "del_space":
        if rng.random() < 0.6:
            return None
        def do():
            sp = m._get_object(s)
            p = sp.parent
            delattr(p, sp.name)
        def upd():
            gone = [n for n in o.bases if n == s or n.startswith(s + ".")]
            for g in gone:
                del o.bases[g]; del o.cells[g]; del o.refs[g]; o.formulas.discard(g)
            for n in o.bases:
                o.bases[n] = [b for b in o.bases[n] if b not in gone]
        return ("del_space %s" % s, do, upd)
    if kind == "rename_space":
        if rng.random() < 0.6:
            return None
        if "." in s:
            return None
        cand = [n for n in SPACES + ["E"] if n not in o.bases]
        if not cand:
            return None
        new = rng.choice(cand)
        def upd():
            def rn(n):
                if n == s: return new
                if n.startswith(s + "."): return new + n[len(s):]
                return n
            for d in (o.bases, o.cells, o.refs):
                for k in list(d):
                    if rn(k) != k:
                        d[rn(k)] = d.pop(k)
            for k in o.bases:
                o.bases[k] = [rn(b) for b in o.bases[k]]
            o.formulas = {rn(f) for f in o.formulas}
            for k in o.refs:
                for r, ((kind_, v), mode) in list(o.refs[k].items()):
                    if kind_ == "obj":
                        parts = v.split(".")
                        for i in range(len(parts), 0, -1):
                            pre = ".".join(parts[:i])
                            if rn(pre) != pre:
                                v2 = rn(pre) + v[len(pre):]
                                o.refs[k][r] = ((kind_, v2), mode)
                                break
        return ("rename_space %s -> %s" % (s, new), lambda: m._get_object(s).rename(new), upd)
    if kind == "new_cells":
        c = rng.choice(CELLS)
        if c in o.cells[s]:
            return None
        f = src(c)
        cached = rng.random() < 0.85
        # if the name exists as derived, new_cells is refused -> use set_formula instead
        return ("new_cells %s.%s = %r cached=%s" % (s, c, f, cached),
                lambda: m._get_object(s).new_cells(c, formula=f, is_cached=cached),
                lambda: o.cells[s].__setitem__(c, (norm(c, f), cached)))
    if kind == "set_formula":
        sp = m._get_object(s)
        if not len(sp.cells):
            return None
        c = rng.choice(list(sp.cells))
        f = src(c)
        cached = sp.cells[c].is_cached
        def do():
            m._get_object(s).cells[c].formula = f
        return ("set_formula %s.%s = %r" % (s, c, f), do,
                lambda: o.cells[s].__setitem__(c, (norm(c, f), cached)))
    if kind == "set_cached":
        sp = m._get_object(s)
        if not len(sp.cells):
            return None
        c = rng.choice(list(sp.cells))
        cur = sp.cells[c].is_cached
        fsrc = sp.cells[c].formula.source
        def do():
            m._get_object(s).cells[c].is_cached = not cur
        return ("set_cached %s.%s = %s" % (s, c, not cur), do,
                lambda: o.cells[s].__setitem__(c, (fsrc, not cur)))
    if kind == "del_cells":
        if not o.cells[s]:
            return None
        c = rng.choice(list(o.cells[s]))
        how = rng.choice([0, 1])
        def do():
            if how:
                delattr(m._get_object(s), c)
            else:
                del m._get_object(s).cells[c]
        return ("del_cells %s.%s" % (s, c), do, lambda: o.cells[s].pop(c))
    if kind == "rename_cells":
        if not o.cells[s]:
            return None
        c = rng.choice(list(o.cells[s]))
        new = rng.choice([n for n in CELLS + ["qux"] if n != c])
        def upd():
            # renames the cells and every sub cells whose nearest definition is it
            targets = []
            for n in o.bases:
                mro = c3(n, o.bases)
                if s not in mro:
                    continue
                definers = [b for b in mro if c in o.cells[b]]
                if n == s:
                    targets.append(n)
                elif definers and definers[0] == n:
                    # defined in sub: nearest base definition
                    bd = [b for b in mro[1:] if c in o.cells[b]]
                    if bd and bd[0] == s:
                        targets.append(n)
            pre = expected_pure(o)
            for n in targets:
                if n != s and new in pre[n]["cells"]:
                    continue
                srcv, cached = o.cells[n].pop(c)
                o.cells[n][new] = (norm(new, srcv), cached)
            o.refs = read_defined(m).refs
        return ("rename_cells %s.%s -> %s" % (s, c, new),
                lambda: m._get_object(s).cells[c].rename(new), upd)
    if kind == "sort_cells":
        return ("sort_cells %s" % s, lambda: m._get_object(s).sort_cells(), lambda: None)
    if kind == "set_ref":
        r = rng.choice(REFS)
        mode = rng.choice(["auto", "auto", "absolute", "relative"])
        t = rng.random()
        if t < 0.6:
            v = rng.randint(1, 9)
            vr = ("lit", v)
            get = lambda: v
        elif t < 0.8:
            tn = rng.choice(names)
            vr = ("obj", tn)
            get = lambda: m._get_object(tn)
        else:
            tn = rng.choice(names)
            sp = m._get_object(tn)
            if not len(sp.cells):
                return None
            cn = rng.choice(list(sp.cells))
            vr = ("obj", tn + "." + cn)
            get = lambda: m._get_object(tn + "." + cn)
        if mode == "relative" and vr[0] == "obj" and not (vr[1] == s or vr[1].rsplit(".", 1)[0] == s):
            mode = "auto"
        how = rng.choice([0, 1])
        def do():
            sp = m._get_object(s)
            if how and mode == "auto":
                setattr(sp, r, get())
            else:
                sp.set_ref(r, get(), mode)
        return ("set_ref %s.%s = %s (%s)" % (s, r, vr, mode), do,
                lambda: o.refs[s].__setitem__(r, (vr, mode)))
    if kind == "del_ref":
        if not o.refs[s]:
            return None
        r = rng.choice(list(o.refs[s]))
        return ("del_ref %s.%s" % (s, r), lambda: delattr(m._get_object(s), r),
                lambda: o.refs[s].pop(r))
    if kind == "eval":
        return ("eval", lambda: evaluate(m), lambda: None)
    return None


def norm(name, f):
    """formula source as modelx stores it (def gets renamed to the cells name)"""
    if f.startswith("def "):
        return "def %s(" % name + f.split("(", 1)[1].rstrip("\n") + "\n"
    return f


def run(seed, nops=30, nested=False, verbose=False, check_eval=True):
    rng = random.Random(seed)
    m = mx.new_model()
    o = Oracle()
    log = []
    excs = collections.Counter()
    try:
        for i in range(nops):
            op = None
            while op is None:
                op = gen_op(rng, m, o, nested)
            desc, do, upd = op
            before = read_defined(m)
            try:
                do()
            except Exception as e:
                log.append(desc + "   !! %s: %s" % (type(e).__name__, str(e)[:80]))
                if "out of scope" in str(e):
                    log.append("  tainted (known no-rollback)")
                    break
                excs[type(e).__name__ + ": " + str(e)[:40]] += 1
                # defined state must be the same as before, then
                o = read_defined(m)
                if (o.bases, o.cells, o.refs) != (before.bases, before.cells, before.refs):
                    log.append("   (defined state changed by failed op)")
            else:
                log.append(desc)
                if desc != "eval":
                    upd()
                    d = read_defined(m)
                    if any(v[0] == ("obj", "<null>") for k in d.refs for v in d.refs[k].values()):
                        log.append("  tainted (dangling), stop")
                        break
                    if (d.bases, d.cells, d.globals, d.formulas) != (o.bases, o.cells, o.globals, o.formulas) or \
                            {k: {r: v for r, v in d.refs[k].items()} for k in d.refs} != o.refs:
                        # tolerate only object ref repr
                        raise Failure("defined state differs from tracked:\n actual  %s %s %s\n tracked %s %s %s" % (
                            d.bases, d.cells, d.refs, o.bases, o.cells, o.refs))
            r = compare(m, o, log, check_eval=check_eval)
            if r == "tainted":
                log.append("  tainted, stop")
                break
    except Failure as f:
        return ("FAIL", seed, log, str(f), excs)
    except Exception as e:
        return ("CRASH", seed, log, traceback.format_exc(), excs)
    finally:
        m.close()
    return ("ok", seed, log, "", excs)


if __name__ == "__main__":
    start = int(sys.argv[1]); n = int(sys.argv[2])
    nested = len(sys.argv) > 3 and sys.argv[3] == "nested"
    nops = int(sys.argv[4]) if len(sys.argv) > 4 else 25
    allexc = collections.Counter()
    fails = 0
    for seed in range(start, start + n):
        st, sd, log, msg, excs = run(seed, nops=nops, nested=nested)
        allexc.update(excs)
        if st != "ok":
            fails += 1
            print("=" * 70)
            print(st, "seed", sd)
            for l in log:
                print("  ", l)
            print(msg)
    print("fails", fails, "of", n)
    for k, v in allexc.most_common():
        print(v, k)
