import sys, os, shutil, tempfile, collections, random
sys.path.insert(0, 'scratch')
import fuzz
from fuzz import *

def strip(act):
    # refmode of literal refs is known not to be saved
    out = {}
    for n, d in act.items():
        refs = {k: (v[0], v[1] if v[0][0] == "obj" else None, v[2]) for k, v in d["refs"].items()}
        out[n] = {"mro": d["mro"], "cells": d["cells"], "refs": refs}
    return out

def run(seed, nops, nested, how):
    rng = random.Random(seed)
    m = mx.new_model()
    o = Oracle()
    log = []
    tmp = tempfile.mkdtemp()
    try:
        for i in range(nops):
            op = None
            while op is None:
                op = gen_op(rng, m, o, nested)
            desc, do, upd = op
            try:
                do()
                log.append(desc)
            except Exception as e:
                log.append(desc + " !! " + str(e)[:60])
                if "out of scope" in str(e):
                    return "ok", log, ""
            d = read_defined(m)
            if any(v[0] == ("obj", "<null>") for k in d.refs for v in d.refs[k].values()):
                return "ok", log, ""
            o = d
        act = read_actual(m)
        ev = evaluate(m)
        path = os.path.join(tmp, "model")
        if how == "zip":
            path += ".zip"
            m.zip(path)
        else:
            m.write(path)
        try:
            m2 = mx.read_model(path, name="Loaded")
        except Exception as e:
            import traceback
            return "READFAIL", log, traceback.format_exc()[-1500:]
        try:
            act2 = read_actual(m2)
            if strip(act) != strip(act2):
                diff = {n: (strip(act)[n], strip(act2).get(n)) for n in act if strip(act)[n] != strip(act2).get(n)}
                return "FAIL", log, "state differs after %s: (orig, loaded) %s" % (how, diff)
            ev2 = evaluate(m2)
            if ev != ev2:
                return "FAIL", log, "eval differs: %s" % {k: (ev[k], ev2.get(k)) for k in ev if ev[k] != ev2.get(k)}
        finally:
            m2.close()
        return "ok", log, ""
    finally:
        m.close()
        shutil.rmtree(tmp, ignore_errors=True)

if __name__ == "__main__":
    start = int(sys.argv[1]); n = int(sys.argv[2]); nested = sys.argv[3] == "nested"; how = sys.argv[4]
    fails = 0
    for seed in range(start, start + n):
        st, log, msg = run(seed, 20, nested, how)
        if st != "ok":
            fails += 1
            print("=" * 60); print(st, "seed", seed)
            for l in log: print("   ", l)
            print(msg)
    print("fails", fails, "of", n)
