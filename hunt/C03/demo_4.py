"""C03 demo 4: a cells created *without a name* in a base space is auto-named
against the namespace of the base space only.  The generated name is not
checked against the sub spaces (a given name is), so the sub space receives a
derived cells under a name it already uses for a reference or a child space
of its own: the name then denotes two members of the sub space, a state that
derivation from scratch (add_bases) refuses with a name conflict.

Run:  cd /tmp/wth_C03 && PYTHONPATH=/tmp/wth_C03 /venv/bin/python FINDINGS/demo_4.py
"""
import modelx as mx

m = mx.new_model()
A = m.new_space("A")
B = m.new_space("B", bases=A)
B.Cells1 = "a reference of B"           # legal names, used by B itself
B.new_space("Cells2")

# With the name given, the conflict is detected and nothing changes:
for name in ("Cells1", "Cells2"):
    try:
        A.new_cells(name, formula=lambda: 0)
        raise SystemExit("unexpected: A.new_cells(%r) accepted" % name)
    except ValueError as e:
        print("A.new_cells(%r) refused: %s" % (name, e))

# Without a name (a lambda has no usable name), the cells are auto-named
c1 = A.new_cells(formula=lambda: 1)
c2 = A.new_cells(formula=lambda: 2)
print("auto-named:", c1.name, c2.name)

own_refs = [k for k in B.refs if k in ("Cells1", "Cells2")]
print("B.cells:", list(B.cells), " B references:", own_refs,
      " B child spaces:", list(B.spaces))
print("B.Cells1 ->", B.Cells1, "  B.Cells2 ->", B.Cells2)

# Derivation from scratch of the same defined members and bases
s = mx.new_model()
A_ = s.new_space("A")
A_.new_cells(c1.name, formula=lambda: 1)
A_.new_cells(c2.name, formula=lambda: 2)
B_ = s.new_space("B")
B_.Cells1 = "a reference of B"
B_.new_space("Cells2")
try:
    B_.add_bases(A_)
    scratch = "accepted"
except NameError as e:
    scratch = "refused (%s)" % e
print("from scratch: B.add_bases(A) is", scratch)

problems = []
for name in B.cells:
    if name in B.spaces:
        problems.append("'%s' is both a derived cells and a child space of B"
                        % name)
    if name in B.refs:
        problems.append("'%s' is both a derived cells and a reference of B "
                        "(the reference %r is hidden)" % (name, B.refs[name]))

assert not problems, (
    "B defines these names itself, so it must not contain a derived copy of "
    "them (derivation from scratch: %s):\n  - " % scratch
    + "\n  - ".join(problems))
print("OK")
