"""C02 demo 2: an ItemSpace built from a base space that has no cells of its
own survives a change of a reference that the base derives; a value read
through that reference of the ItemSpace stays cached.

Run: cd /tmp/wth_C02 && PYTHONPATH=/tmp/wth_C02 /venv/bin/python FINDINGS/demo_2.py
"""
import modelx as mx


def build(name):
    m = mx.new_model(name)

    D = m.new_space('D')
    D.new_cells('g', formula=lambda: 999)

    A0 = m.new_space('A0')                       # base space
    A0.new_space('C0').new_cells('g', formula=lambda: 10)
    A0.r = A0.C0                                 # reference to its child

    A = m.new_space('A')                         # sub space, no cells itself
    A.new_space('C0').new_cells('g', formula=lambda: 100)
    A.add_bases(A0)                              # A.r is derived -> A.C0

    # The items of P are built from A
    m.new_space('P', formula=lambda i: {'base': _model.A})

    R = m.new_space('R')
    R.new_cells('h', formula=lambda: _model.P[1].r.g())
    return m


def edit(m):
    m.A0.r = m.D          # changing a reference; A.r (derived) follows


a = build('WithEval')
# (nothing but the evaluation here: merely looking at ``a.A.r`` from outside
# would bring the namespace of A up to date and hide the defect)
assert a.R.h() == 100     # P[1].r is P[1].C0, as A.r is A.C0
edit(a)
assert a.A.r is a.D and a.P[1].r is a.D      # the reference did change
got = a.R.h()

b = build('EditsOnly')
edit(b)
want = b.R.h()
assert want == 999

a.close(); b.close()
assert got == want, (
    "R.h() = P[1].r.g() must follow the changed reference r: "
    "model with an earlier evaluation returns %r, "
    "model with the edits only returns %r" % (got, want))
print("no violation")
