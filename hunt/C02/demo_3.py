"""C02 demo 3: dependencies that cross a model boundary are not followed.

A formula of model M1 reads a space of model M2 through a reference.
 (a) a reference of M2 read by attribute path: nothing is cleared in M1;
 (b) a cells of M2 called: only the direct caller in M1 is cleared,
     the cells of M1 that depend on that caller keep their values.

Run: cd /tmp/wth_C02 && PYTHONPATH=/tmp/wth_C02 /venv/bin/python FINDINGS/demo_3.py
"""
import modelx as mx


def build(tag):
    m2 = mx.new_model('Lib' + tag)
    B = m2.new_space('B')
    B.x = 1
    B.new_cells('foo', formula=lambda i: x * 10 + i)

    m1 = mx.new_model('Main' + tag)
    A = m1.new_space('A')
    A.r = B                                         # space of the other model
    A.new_cells('p', formula=lambda: r.x)           # attribute path
    A.new_cells('g', formula=lambda: r.foo(1))      # call
    A.new_cells('k', formula=lambda: g() + 1000)    # depends on g
    return m1, m2


def edit(m1, m2):
    m2.B.x = 2            # changing a reference


def values(m1):
    return {'p': m1.A.p(), 'g': m1.A.g(), 'k': m1.A.k()}


a1, a2 = build('A')
assert values(a1) == {'p': 1, 'g': 11, 'k': 1011}
edit(a1, a2)
got = values(a1)

b1, b2 = build('B')
edit(b1, b2)
want = values(b1)
assert want == {'p': 2, 'g': 21, 'k': 1021}

for m in (a1, a2, b1, b2):
    m.close()
assert got == want, (
    "values of Main.A must follow the change of Lib.B.x: "
    "model with an earlier evaluation returns %r, "
    "model with the edits only returns %r" % (got, want))
print("no violation")
