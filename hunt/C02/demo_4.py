"""C02 demo 4: an evaluation that failed while an ItemSpace was being built
leaves a half-built ItemSpace registered with its base space; from then on
every edit that changes the namespace of that space raises AttributeError
half way (the model is left changed), so the mistake can not even be repaired.

Run: cd /tmp/wth_C02 && PYTHONPATH=/tmp/wth_C02 /venv/bin/python FINDINGS/demo_4.py
"""
import modelx as mx


def build(name):
    m = mx.new_model(name)
    A = m.new_space('A', formula=lambda i: {'refs': k})
    A.k = [('z', 10)]           # mistake: 'refs' must be a mapping
    A.new_cells('g', formula=lambda: z + i)
    return m


def edit(m):
    m.A.k = {'z': 10}           # changing a reference (repairs the mistake)


# model B: only the edit, then the evaluation
b = build('EditsOnly')
edit(b)
want = b.A[1].g()
assert want == 11
b.close()

# model A: a (failing) evaluation, the same edit, the evaluation
a = build('WithEval')
try:
    a.A[1].g()
except Exception as e:          # FormulaError: 'list' object has no attribute 'items'
    pass
else:
    raise RuntimeError("the evaluation was expected to fail")

try:
    edit(a)
    got = a.A[1].g()
except Exception as e:
    got = "%s: %s" % (type(e).__name__, str(e).splitlines()[0])

assert got == want, (
    "an earlier (failed) evaluation must not change what the edit and the "
    "later evaluation do: model with the earlier evaluation gives %r, "
    "model with the edits only returns %r" % (got, want))
print("no violation")
