"""C02 demo 1: a value computed by a formula that caught the failure of a
callee is never invalidated when the callee is later given a value/formula.

Run: cd /tmp/wth_C02 && PYTHONPATH=/tmp/wth_C02 /venv/bin/python FINDINGS/demo_1.py
"""
import modelx as mx


def f(i):
    raise ValueError("no data for %s" % i)


def h():
    try:
        return f(1)
    except ValueError:
        return -1


def build(name):
    m = mx.new_model(name)
    S = m.new_space('S')
    S.new_cells('f', formula=f)
    S.new_cells('h', formula=h)
    return m


def edit_input(m):
    m.S.f[1] = 5                        # assigning a cell value


def edit_formula(m):
    m.S.f.formula = lambda i: 5         # changing a formula


for edit in (edit_input, edit_formula):
    # model A: evaluation, edit, evaluation
    a = build('WithEval')
    assert a.S.h() == -1                # f(1) fails, h falls back
    edit(a)
    got = a.S.h()

    # model B: only the edit, then the evaluation
    b = build('EditsOnly')
    edit(b)
    want = b.S.h()
    assert want == 5

    a.close(); b.close()
    assert got == want, (
        "%s: S.h() must not depend on what was cached before the edit: "
        "model with an earlier evaluation returns %r, "
        "model with the edits only returns %r" % (edit.__name__, got, want))

print("no violation")
