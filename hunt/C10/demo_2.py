"""C10 defect 2: in an ItemSpace, a derived auto-mode reference whose target
lies outside the ItemSpace's base tree does not keep the object its base space
denotes: it silently jumps to the value of the *base of the base*.

    P               cells foo = 1
    P.A             x = P.foo (auto),  get = x()
    Q(P)            overrides foo = 2
    Q.A(P.A)        parametric; derives x -> rebound to Q.foo (relative)

Q.A.x is Q.foo.  Q.foo is outside the tree of Q.A, so in Q.A[1] the reference
has to keep denoting that object.  Instead Q.A[1].x is P.foo.
"""
import modelx as mx

m = mx.new_model("Demo2")
P = m.new_space("P")
P.new_cells("foo", formula=lambda: 1)
PA = P.new_space("A")
PA.x = P.foo                        # 'auto' mode
PA.new_cells("get", formula=lambda: x())

Q = m.new_space("Q", bases=P)
Q.foo.formula = lambda: 2
QA = Q.new_space("A", bases=PA)
QA.parameters = ("i",)

assert QA.x is Q.foo                # static derivation rebinds P.foo -> Q.foo
assert QA.get() == 2

it = QA[1]
# Required by C10: the target (Q.foo) lies outside the tree of the ItemSpace's
# base Q.A, so the reference keeps denoting the original object
assert it.x is QA.x, (
    "Q.A[1].x must keep denoting %r like its base space, but denotes %r"
    % (QA.x, it.x))
assert it.get() == 2
