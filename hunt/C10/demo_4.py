"""C10 defect 4: a reference (any mode) to a cells or space whose name is also
an attribute of the Space class (doc, formula, parameters, bases, name,
parent, model, cells, spaces, refs ...) does not survive saving and loading:
the reader resolves the saved path with getattr() on the Space object.
"""
import os
import tempfile
import modelx as mx

m = mx.new_model("Demo4")
B = m.new_space("B")
target = B.new_cells("doc", formula=lambda: 42)     # a legal cells name
B.new_cells("use", formula=lambda: doc())
assert B.use() == 42

T = m.new_space("T")
T.set_ref("a", target, "absolute")
T.set_ref("r", target, "auto")
T.new_cells("get", formula=lambda: a() + r())
S = m.new_space("S", bases=T)
assert S.a is target and S.r is target and S.get() == 84

path = os.path.join(tempfile.mkdtemp(), "model")
m.write(path)
m2 = mx.read_model(path, name="Demo4r")

target2 = m2.B.cells["doc"]
for sp in (m2.T, m2.S):
    for name, mode in (("a", "absolute"), ("r", "auto")):
        proxy = mx.get_object(sp.fullname + "." + name, as_proxy=True)
        assert proxy.refmode == mode
        # Required by C10: the reference keeps denoting the original object
        # after saving and loading
        assert proxy.value is target2, (
            "%s.%s must denote %r after write/read, but is %r"
            % (sp.fullname, name, target2, proxy.value))
assert m2.S.get() == 84
