"""C10 defect 1: in an ItemSpace, an auto-mode reference that a nested space
*derives* from its base is left pointing into the static tree, although its
target lies inside the ItemSpace's base tree.

    S(i)            parametric, cells foo = i * 10
    S.E             x = S.foo  (auto),  get = x()
    S.C(E)          derives x and get from its sibling S.E

S.C.x is S.foo (S.C has no corresponding object of its own, so the static
derivation keeps the original - fine).  In S[3] every reference to an object
inside S's tree must be bound to the corresponding object of the dynamic
tree: S[3].E.x is S[3].foo, but S[3].C.x stays S.foo.
"""
import modelx as mx

m = mx.new_model("Demo1")
S = m.new_space("S")
S.new_cells("foo", formula=lambda: i * 10)
E = S.new_space("E")
E.x = S.foo                         # 'auto' mode
E.new_cells("get", formula=lambda: x())
C = S.new_space("C", bases=E)
S.parameters = ("i",)

assert mx.get_object("Demo1.S.C.x", as_proxy=True).refmode == "auto"
assert C.x is S.foo                 # static level: nothing to rebind to

it = S[3]
assert it.foo() == 30
assert it.E.x is it.foo             # the defined reference is rebound
assert it.E.get() == 30

# Required by C10: S.foo is inside the base's tree, the mode is 'auto',
# so the reference of the dynamic space S[3].C denotes S[3].foo
assert it.C.x is it.foo, (
    "S[3].C.x must be bound to %r of the dynamic tree, but denotes %r"
    % (it.foo, it.C.x))
assert it.C.get() == 30
