"""C10 defect 3: the binding of a derived auto-mode reference does not survive
saving and loading (nor an unrelated edit), because whether it is relative is
decided by a by-name lookup that is made at different moments.

    B               y = B.C (auto),  x = B.C.bar (auto)
    B.C             cells bar
    S(B)            derived when S has no child C  ->  S.x is B.C.bar
    S.C(B.C)        created afterwards             ->  S.x is still B.C.bar

After write/read the very same model has S.x bound to S.C.bar.
"""
import os
import tempfile
import modelx as mx

m = mx.new_model("Demo3")
B = m.new_space("B")
BC = B.new_space("C")
BC.new_cells("bar", formula=lambda: 1)
B.x = BC.bar                        # 'auto' mode
B.y = BC
S = m.new_space("S", bases=B)
S.new_space("C", bases=BC).bar.formula = lambda: 2

before = (S.x.fullname, S.y.fullname)
assert before == ("Demo3.B.C.bar", "Demo3.B.C")

path = os.path.join(tempfile.mkdtemp(), "model")
m.write(path)
m2 = mx.read_model(path, name="Demo3r")
after = (m2.S.x.fullname.replace("Demo3r", "Demo3"),
         m2.S.y.fullname.replace("Demo3r", "Demo3"))

# Required by C10: modes and bindings survive saving and loading
assert mx.get_object("Demo3r.S.x", as_proxy=True).refmode == "auto"
assert after == before, (
    "bindings of S.x, S.y changed by write/read: %s -> %s" % (before, after))
