"""C06 defect 2: a value that was computed from an element through a callee
that raised (and whose exception the formula handled) is not discarded when
that element is edited.

Run: cd /tmp/wth_C06 && PYTHONPATH=/tmp/wth_C06 /venv/bin/python FINDINGS/demo_2.py
"""
import modelx as mx

m = mx.new_model('M')
s = m.new_space('S')


@mx.defcells(space=s)
def a():
    return 0


@mx.defcells(space=s)
def b():
    return 1 / a()


@mx.defcells(space=s)
def c():
    try:
        return b()
    except ZeroDivisionError:
        return -1


s.a = 0
assert s.c() == -1          # b() raises because a() == 0; c handles it
s.a = 2                     # value edit of a

# c's held value -1 was computed transitively from a() (a()==0 made b() fail),
# so the edit of `a` must discard it; lazily recomputed it is 1/2.
assert len(s.c) == 0, (
    "C06: c() was computed from a() (through the failing b()) and must be "
    "discarded when a is edited, but it is still held: %r" % dict(s.c))
assert s.c() == 0.5, "C06: stale value served: %r" % s.c()
