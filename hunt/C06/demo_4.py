"""C06 defect 4: with the recalculation option on, a dependent that lives in an
ItemSpace which the same edit rebuilds is NOT recomputed at once: its formula is
run on the deleted ItemSpace's cells and the result is thrown away.

Run: cd /tmp/wth_C06 && PYTHONPATH=/tmp/wth_C06 /venv/bin/python FINDINGS/demo_4.py
"""
import modelx as mx


def build(name):
    m = mx.new_model(name)
    t = m.new_space('T')
    t.new_cells('a', lambda: 1)
    s = m.new_space('S')
    s.aref = t.a
    s.runs = []
    s.formula = lambda i: {'refs': {'v': aref()}}   # S[i] depends on T.a

    @mx.defcells(space=s)
    def foo(x):
        runs.append(x)
        return aref() + x + v                        # S[i].foo(x) depends on T.a

    return m, t, s


# Reference behaviour: lazy recomputation
mx.set_recalc(False)
m0, t0, s0 = build('Lazy')
assert s0[1].foo(2) == 4
t0.a = 10
lazy_value = s0[1].foo(2)            # 10 + 2 + 10
assert lazy_value == 22

# Recalculation option on
mx.set_recalc(True)
m1, t1, s1 = build('Recalc')
assert s1[1].foo(2) == 4
runs = s1.runs
del runs[:]
t1.a = 10                            # value edit; S[1].foo(2) is a dependent
runs_during_edit = list(runs)

held = dict(s1[1].foo)
assert held == {2: lazy_value}, (
    "C06: with recalculation on, the discarded dependent S[1].foo(2) must be "
    "recomputed at once to the lazy value %r, but S[1].foo holds %r "
    "(formula runs during the edit: %r)" % (lazy_value, held, runs_during_edit))
