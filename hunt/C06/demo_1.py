"""C06 defect 1: a value edit in one model leaves stale dependents-of-dependents
in another model (dependency edges that cross models are split over two graphs).

Run: cd /tmp/wth_C06 && PYTHONPATH=/tmp/wth_C06 /venv/bin/python FINDINGS/demo_1.py
"""
import modelx as mx

B = mx.new_model('B')
sb = B.new_space('SB')
sb.new_cells('b', lambda: 1)

A = mx.new_model('A')
sa = A.new_space('SA')
sa.bref = sb.b                       # reference to a cells of the other model
sa.new_cells('c1', lambda: bref() + 1)
sa.new_cells('c2', lambda: c1() * 10)

assert sa.c2() == 20                 # b=1 -> c1=2 -> c2=20
sb.b = 5                             # value edit of B.SB.b

# c1 and c2 were both computed (directly / transitively) from B.SB.b,
# so both must have been discarded and must now be recomputed from b == 5.
assert len(sa.c1) == 0, "c1 (direct dependent) must be discarded"
assert len(sa.c2) == 0, (
    "C06: c2 was computed transitively from B.SB.b and must be discarded "
    "by the edit, but it is still held: %r" % dict(sa.c2))
assert sa.c2() == 60, "C06: stale value served: %r" % sa.c2()
