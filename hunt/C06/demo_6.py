"""C06 defect 6: the values a copied cells (Cells.copy / Space.copy) takes over
from its source cannot be cleared: clear_at / clear_all / Space.clear_all /
Model.clear_all leave them in place and the cells keeps returning them.

Run: cd /tmp/wth_C06 && PYTHONPATH=/tmp/wth_C06 /venv/bin/python FINDINGS/demo_6.py
"""
import modelx as mx

m = mx.new_model('M')
s = m.new_space('S')


@mx.defcells(space=s)
def foo(x):
    return 2 * x


foo[1] = 10
t = m.new_space('T')
foo2 = foo.copy(t, 'foo2')           # the copy takes over the assigned value
assert dict(foo2) == {1: 10} and foo2.is_input(1)

foo2.clear_at(1)                     # clearing the value of one cell element
still = dict(foo2)
foo2.clear_all()
m.clear_all()
assert dict(foo) == {}               # the original is cleared all right
assert still == {} and dict(foo2) == {}, (
    "C06: clearing the value of the element foo2(1) must discard it (and then "
    "the formula value 2 is served), but after clear_at: %r, after clear_all "
    "and Model.clear_all: %r" % (still, dict(foo2)))
assert foo2(1) == 2
