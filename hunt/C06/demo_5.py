"""C06 defect 5 (same clause as demo_4, different face): with the recalculation
option on, only the former terminal nodes are re-evaluated, so a discarded
dependent that those no longer reach is left discarded instead of being
recomputed at once.

Run: cd /tmp/wth_C06 && PYTHONPATH=/tmp/wth_C06 /venv/bin/python FINDINGS/demo_5.py
"""
import modelx as mx

mx.set_recalc(True)
m = mx.new_model('M')
s = m.new_space('S')


@mx.defcells(space=s)
def a():
    return 1


@mx.defcells(space=s)
def b():
    return a() * 2


@mx.defcells(space=s)
def c():
    return b() if a() > 0 else 0


s.a = 1
assert s.c() == 2 and dict(s.b) == {(): 2}
s.a = -1            # b and c are dependents of a: both discarded

assert dict(s.c) == {(): 0}          # c is recomputed at once - fine
assert dict(s.b) == {(): -2}, (
    "C06: with recalculation on, the discarded dependent b() must be "
    "recomputed at once to the value lazy recomputation gives (-2), "
    "but b holds %r" % dict(s.b))
