"""C06 defect 3: deleting an (unrelated) reference wipes the values the user
assigned to derived cells of the space and of its sub spaces.

Run: cd /tmp/wth_C06 && PYTHONPATH=/tmp/wth_C06 /venv/bin/python FINDINGS/demo_3.py
"""
import modelx as mx

m = mx.new_model('M')
base = m.new_space('Base')


@mx.defcells(space=base)
def foo(x):
    return x


sub = m.new_space('Sub', bases=base)

sub.foo[1] = 50             # user-assigned value in the (derived) cells Sub.foo
assert sub.foo.is_input(1)

base.unrelated = 3          # creating / changing a reference: input survives
base.unrelated = 4
assert dict(sub.foo) == {1: 50}

del base.unrelated          # deleting it: a reference change nothing reads

# "Values assigned by the user survive ... reference changes, and an assigned
# value is what the cells returns for those arguments regardless of its formula"
assert 1 in sub.foo and sub.foo.is_input(1), (
    "C06: the value assigned to Sub.foo[1] must survive a reference change, "
    "but Sub.foo now holds %r" % dict(sub.foo))
assert sub.foo(1) == 50, "C06: assigned value lost, formula value served"
