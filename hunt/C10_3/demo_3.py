"""C10 defect 3: an auto-mode reference to an ItemSpace (or to a cells of an
ItemSpace) of a descendant space makes every ItemSpace of the defining space
unusable.

A (parameter i) has a child space B (parameter j) with a cells c.
A.pick = A.B[2]   (auto mode) is a reference to an object inside the tree of A.

In the ItemSpace A[1] the reference has to denote the corresponding object of
the dynamic tree (A[1].B[2]) or, at the very least, the original A.B[2].
Instead the reference is bound to nothing: A[1] is built with a broken
namespace and any attribute access on it raises
AttributeError: 'NoneType' object has no attribute 'interface'.
The same reference in absolute mode works.
"""
import modelx as mx

m = mx.new_model("D3")
A = m.new_space("A", formula=lambda i: None)
A.new_cells("foo", formula=lambda: i)
B = A.new_space("B", formula=lambda j: None)
B.new_cells("c", formula=lambda: j)

A.absref(pick_abs=B[2])
a1 = A[1]
assert a1.pick_abs is A.B[2] and a1.foo() == 1      # absolute mode: fine

A.pick = B[2]                                        # auto mode
assert A.pick is A.B[2] and A.pick.c() == 2          # a live, valid object

a1 = A[1]
try:
    got = a1.pick
    err = None
except Exception as e:      # AttributeError from the namespace machinery
    got = None
    err = e

assert err is None and got in (a1.B[2], A.B[2]), (
    "C10: in the ItemSpace A[1] the auto reference 'pick' (= A.B[2], an object "
    "inside the tree of A) must denote the corresponding A[1].B[2] (or keep "
    "denoting A.B[2]); instead reading it - or any other attribute of A[1] - "
    "fails with %r" % (err,))
assert a1.foo() == 1
print("ok")
