"""C10 defect 1: in an ItemSpace nested inside another ItemSpace, a reference
to an object of the enclosing dynamic tree falls back to the *static* object.

A (parameter i) has a cells foo and a child space B (parameter j).
B.outer = A.foo  (auto mode; A.foo is inside the tree of A, outside the tree of B)

A[1] is an ItemSpace whose base is A, so A[1].B.outer is correctly A[1].foo.
A[1].B[2] is an ItemSpace that lives inside the dynamic tree of A[1]; the
object A.foo is inside the tree of A[1]'s base, so the reference has to be
bound to the corresponding object of the dynamic tree, A[1].foo (that is also
"the original object" as seen from A[1].B, the space A[1].B[2] is an item of).
Instead it is bound to the static A.foo, where the parameter i does not exist.
"""
import modelx as mx

m = mx.new_model("D1")
A = m.new_space("A", formula=lambda i: None)
A.new_cells("foo", formula=lambda: i * 10)
B = A.new_space("B", formula=lambda j: None)
C = B.new_space("C")
B.outer = A.foo                      # auto
C.outer = A.foo                      # auto, from a child of the inner space
B.new_cells("use", formula=lambda: outer() + j)

a1 = A[1]
assert a1.B.outer is a1.foo          # fine: one level of ItemSpace
assert a1.B.use.parent is a1.B

b2 = a1.B[2]                         # ItemSpace inside the ItemSpace A[1]
assert b2.parent is a1.B

got = b2.outer
assert got is a1.foo, (
    "C10: A[1].B[2] is part of the dynamic tree of A[1]; its reference "
    "'outer' (auto, defined as A.foo, bound to A[1].foo in A[1].B) must denote "
    "A[1].foo, but it denotes %r" % got)

got = b2.C.outer
assert got is a1.foo, (
    "C10: same for the child space A[1].B[2].C: got %r" % got)

assert b2.use() == 12                # would raise NameError: name 'i' ...
print("ok")
