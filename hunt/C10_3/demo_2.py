"""C10 defect 2: a derived reference is "re-bound" to whatever member of the
deriving space happens to carry the name of the target - a literal reference
value or an unrelated cells - instead of a corresponding Space object or the
original object.

Base has a child space C and references to it (auto / relative mode).
Child spaces are not inherited, so a sub space is free to use the name C for a
reference (Sub.C = 5) or for a cells of its own.  The derived reference Sub.r
must then either denote a corresponding object (there is none: Sub has no
child space C) or keep denoting the original Base.C (auto), or be refused
(relative).  It ends up being the number 5 / the text 'text' / a Cells.
"""
import modelx as mx


def one():
    return 1


m = mx.new_model("D2")
Base = m.new_space("Base")
C = Base.new_space("C")
C.new_cells("foo", formula=one)
Base.r = C                                  # auto mode, target: child space

# (a) the sub space has a reference named C holding a literal
Sub = m.new_space("Sub")
Sub.C = 5
Sub.add_bases(Base)

# (b) the sub space has a cells named C
Sub2 = m.new_space("Sub2")
Sub2.new_cells("C", formula=one)
Sub2.add_bases(Base)

# (c) relative mode: there is no space Sub3.C, the derivation must be refused
#     (as it is for a sub space without any member named C), not bound to text
Base2 = m.new_space("Base2")
C2 = Base2.new_space("C")
Base2.set_ref("r", C2, "relative")
Sub3 = m.new_space("Sub3")
Sub3.C = "text"
try:
    Sub3.add_bases(Base2)
    rel = Sub3.r
except ValueError:
    rel = "refused"

problems = []
if not (Sub.r is C):
    problems.append("auto: Sub.r is %r, not a Space (Sub has no space C, so "
                    "the reference must keep denoting Base.C)" % (Sub.r,))
if not (Sub2.r is C):
    problems.append("auto: Sub2.r is %r, a cells that merely has the name of "
                    "the space Base.C" % (Sub2.r,))
if not (rel == "refused" or isinstance(rel, mx.core.space.UserSpace)):
    problems.append("relative: Sub3.r is %r, neither refused nor a "
                    "corresponding space" % (rel,))

assert not problems, (
    "C10: a derived object-valued reference denotes the corresponding object "
    "of the deriving space or else the original object:\n  "
    + "\n  ".join(problems))
print("ok")
