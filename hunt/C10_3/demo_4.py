"""C10 defect 4 (possibly the same code path as the already known
"`return value.bases[0]` hands back the base's reference" item - see notes.md):
a derived auto reference that static derivation DID re-bind is, in an
ItemSpace, switched back to the object the *base* space refers to.

P has a cells foo and a child space T with  T.o = P.foo  (auto; outside T).
Q derives P and Q.T derives P.T, so the derived Q.T.o is re-bound to Q.foo
(same relative position).  Q.foo lies outside the tree of Q.T, hence in the
ItemSpace Q.T[1] the reference must keep denoting the original object of
Q.T.o, i.e. Q.foo.  It denotes P.foo instead - an object Q.T never referred to.
"""
import modelx as mx


def one():
    return 1


m = mx.new_model("D4")
P = m.new_space("P")
P.new_cells("foo", formula=one)
T = P.new_space("T")
T.o = P.foo                                   # auto
Q = m.new_space("Q", bases=P)
QT = Q.new_space("T", bases=T, formula=lambda i: None)

assert QT.o is Q.foo                          # static derivation: re-bound
got = QT[1].o
assert got is Q.foo, (
    "C10: Q.T.o denotes Q.foo, which is outside the tree of Q.T, so in the "
    "ItemSpace Q.T[1] the reference keeps denoting Q.foo; got %r" % got)
print("ok")
