"""C12 / defect 3: a cells created in a base space WITHOUT a name (documented:
"If omitted, ... named automatically CellsN") is derived into a sub space
where CellsN is already a reference (or a child space).

Run: cd /tmp/wth_C12 && PYTHONPATH=/tmp/wth_C12 /venv/bin/python FINDINGS/demo_3.py
"""
import modelx as mx

m = mx.new_model("D3")
B = m.new_space("B")
S = m.new_space("S", bases=B)
S.Cells1 = 5                    # own reference of the sub space
T = m.new_space("T", bases=B)
T.new_space("Cells1")           # child space of another sub space

# With an explicit name the edit of the base is refused
try:
    B.new_cells("Cells1", "lambda: 1")
    raise AssertionError("explicit name unexpectedly accepted")
except ValueError:
    pass

try:
    c = B.new_cells(formula="lambda: 1")      # automatic name
except ValueError:
    raise SystemExit(0)     # refusing is fine
print("created", c)

problems = []
for sub in (S, T):
    cells, refs, spaces = set(sub.cells), set(sub.refs), set(sub.spaces)
    print(sub, "cells:", sorted(cells), "refs:", sorted(refs),
          "spaces:", sorted(spaces), "->", repr(getattr(sub, "Cells1")))
    clash = (cells & refs) | (cells & spaces) | (refs & spaces)
    if clash:
        problems.append((sub, sorted(clash)))
assert not problems, (
    "C12: no edit to a base may make a name denote two kinds of thing in "
    "a sub space, but after B.new_cells() a name denotes two things in: %s"
    % problems)
