"""C12 / defect 4: in an ItemSpace a name can be a cells (or a child space)
and a reference at once: neither the parameters of the space formula nor the
``refs`` returned by it are checked against the members of the space.

Run: cd /tmp/wth_C12 && PYTHONPATH=/tmp/wth_C12 /venv/bin/python FINDINGS/demo_4.py
"""
import modelx as mx


def clashes(space):
    cells, refs, spaces = set(space.cells), set(space.refs), set(space.spaces)
    return sorted((cells & refs) | (spaces & refs) | (cells & spaces))


problems = []

# (a) references returned by the formula
m = mx.new_model("D4a")
A = m.new_space("A")
A.new_space("Child")
A.new_cells("foo", "lambda: 1")
try:
    A.formula = "lambda i: {'refs': {'foo': 20, 'Child': 10}}"
    it = A[1]
except (ValueError, NameError, KeyError):
    it = None       # refusing is fine
if it is not None:
    print(it, "cells:", list(it.cells), "refs:", list(it.refs),
          "spaces:", list(it.spaces),
          "| it.foo ->", repr(it.foo), "| it.Child ->", repr(it.Child))
    if clashes(it):
        problems.append((it, clashes(it)))

# (b) the parameters themselves
m = mx.new_model("D4b")
P = m.new_space("P")
P.new_cells("x", "lambda: 10")
P.new_space("y")
try:
    P.formula = "lambda x, y=0: None"
    it = P[1]
except (ValueError, NameError, KeyError):
    it = None
if it is not None:
    print(it, "cells:", list(it.cells), "spaces:", list(it.spaces),
          "parameters:", P.parameters, "'x' in refs:", "x" in it.refs,
          "| it.x ->", repr(it.x), "| it.y ->", repr(it.y))
    if clashes(it):
        problems.append((it, clashes(it)))

assert not problems, (
    "C12: in every space a name denotes at most one thing among cells, "
    "references (own, parameters) and child spaces; violated in: %s"
    % problems)
