"""C12 / defect 2: a model-level reference created under the name of a
(nested) child space hides that child space in its parent space.

Run: cd /tmp/wth_C12 && PYTHONPATH=/tmp/wth_C12 /venv/bin/python FINDINGS/demo_2.py
"""
import modelx as mx

m = mx.new_model("D2")
A = m.new_space("A")
X = A.new_space("X")
X.new_cells("v", "lambda: 42")
A.new_cells("foo", "lambda: X.v()")
assert A.foo() == 42 and A.X is X

# The other order is refused by the library (name clash):
m.Y = 1
try:
    A.new_space("Y")
    other_order_refused = False
except ValueError:
    other_order_refused = True
print("new_space('Y') under a model-level reference Y refused:",
      other_order_refused)

try:
    m.X = 1     # model-level reference; 'X' is not a space of the model
except (ValueError, KeyError, NameError):
    raise SystemExit(0)     # refusing it is fine

print("A.spaces:", dict(A.spaces), " A.X ->", repr(A.X),
      " 'X' in A.refs:", "X" in A.refs)
# In A the name X now denotes a child space (A.spaces) and a reference
# (A.refs), and the model-level reference wins over the space-level member
assert A.X is A.spaces["X"], (
    "C12: in space A the name 'X' denotes the child space A.X; a model-level "
    "reference must not take precedence over a member of the space, but "
    "attribute access gives %r" % (A.X,))
assert A.foo() == 42, (
    "C12: formulas of A must see the child space X, but foo() fails/gives "
    "something else")
