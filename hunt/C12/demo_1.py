"""C12 / defect 1: new_space(bases=..., refs=...) makes one name both a cells
and an own reference of the new space.

Run: cd /tmp/wth_C12 && PYTHONPATH=/tmp/wth_C12 /venv/bin/python FINDINGS/demo_1.py
"""
import modelx as mx

m = mx.new_model("D1")
B = m.new_space("B")
B.new_cells("foo", "lambda: 1")

# The same clash is refused when made in two steps ...
S0 = m.new_space("S0", bases=B)
try:
    S0.foo = 5          # sets the value of the derived cells or raises,
except Exception:       # never creates a reference
    pass
assert "foo" not in S0.refs

# ... but not when the references are given to new_space
try:
    S = m.new_space("S", bases=B, refs={"foo": 5})
except (ValueError, NameError, KeyError):
    raise SystemExit(0)     # refusing the clash is fine

cells, refs, spaces = set(S.cells), set(S.refs), set(S.spaces)
print("cells:", sorted(cells), "refs:", sorted(refs), "S.foo ->", S.foo)
assert not (cells & refs) and not (cells & spaces) and not (refs & spaces), (
    "C12: a name must denote at most one thing among the cells, the own "
    "references and the child spaces of a space, but in %r %s is both a "
    "cells and a reference of the space" % (S, sorted(cells & refs)))
