"""C07 defect 1: in a nested ItemSpace S[1].C[3] the references of C that point
into the enclosing instance (the parent S, a sibling space, a cells of S) are
bound to the *static* S tree instead of the S[1] instance that S[1].C uses.

Run:  cd /tmp/wth_C07 && PYTHONPATH=/tmp/wth_C07 /venv/bin/python FINDINGS/demo_1.py
"""
import modelx as mx

m = mx.new_model("Demo1")
S = m.new_space("S", formula=lambda x: None)        # parametrised by x
C = S.new_space("C", formula=lambda z: None)        # nested parametrised space
D = S.new_space("D")


@mx.defcells(space=S)
def foo(t):
    return ("foo", x, t)


@mx.defcells(space=D)
def dd(t):
    return ("dd", x, t)


# References of the child space C to its parent, to a sibling space and to a
# cells of the parent (default 'auto' mode).
C.up = S
C.sib = D
C.pfoo = S.foo


@mx.defcells(space=C)
def bar(t):
    return (pfoo(t), up.foo(t), sib.dd(t))


# The enclosing instance S[1].C is right: everything stays inside S[1].
inst = S[1].C
assert inst.up is S[1] and inst.sib is S[1].D and inst.pfoo is S[1].foo
expected = (("foo", 1, 2), ("foo", 1, 2), ("dd", 1, 2))
assert inst.bar(2) == expected

# S[1].C[3] is an instance of S[1].C with z=3 bound in addition.
# bar does not use z, so it must evaluate exactly as in S[1].C,
# with the calls staying inside the S[1] instance.
nested = S[1].C[3]
assert nested.x == 1 and nested.z == 3      # both parameters are bound as names

problems = []
if nested.up is not S[1]:
    problems.append("S[1].C[3].up is %r, S[1].C.up is %r" % (nested.up, inst.up))
if nested.sib is not S[1].D:
    problems.append("S[1].C[3].sib is %r, S[1].C.sib is %r" % (nested.sib, inst.sib))
if nested.pfoo is not S[1].foo:
    problems.append("S[1].C[3].pfoo is %r, S[1].C.pfoo is %r" % (nested.pfoo, inst.pfoo))

try:
    got = nested.bar(2)
except Exception as e:      # NameError: name 'x' is not defined (static S.foo)
    got = "%s: %s" % (type(e).__name__, str(e).splitlines()[1] if "\n" in str(e) else e)

assert not problems and got == expected, (
    "C07: every cells of S[1].C must evaluate in S[1].C[3] exactly as in its "
    "base S[1].C, with x=1 bound and calls staying inside the instance.\n"
    "expected bar(2) == %r\n"
    "got      %r\n%s" % (expected, got, "\n".join(problems))
)
print("OK")
