"""C07 defect 5: after UserSpace.reload() has replaced the formula of a cells
of the base, an existing ItemSpace keeps serving values of the old formula
(it is neither deleted nor updated), while an ItemSpace created afterwards
uses the new formula.

Run:  cd /tmp/wth_C07 && PYTHONPATH=/tmp/wth_C07 /venv/bin/python FINDINGS/demo_5.py
"""
import sys
import os
import tempfile
import importlib

sys.dont_write_bytecode = True
import modelx as mx

tmpdir = tempfile.mkdtemp()
sys.path.insert(0, tmpdir)
modname = "c07_reload_src"
modpath = os.path.join(tmpdir, modname + ".py")

V1 = "def foo(t):\n    return ('version 1', x, t)\n\n\ndef bar(t):\n    return foo(t)\n"
V2 = "def foo(t):\n    return ('version 2 of foo', x, t)\n\n\ndef bar(t):\n    return foo(t)\n"

with open(modpath, "w") as f:
    f.write(V1)

m = mx.new_model("Demo5")
S = m.import_module(modname, name="S")      # cells foo and bar from the module
S.formula = lambda x: None

old = S[1]
assert old.foo(0) == ("version 1", 1, 0)
assert old.bar(0) == ("version 1", 1, 0)

# Edit the source module and reload the space (documented UserSpace.reload)
with open(modpath, "w") as f:
    f.write(V2)
importlib.invalidate_caches()
S.reload()

# The definition of the base has changed:
assert "version 2 of foo" in repr(S.foo.formula), S.foo.formula
# ... and a new instance reflects it:
assert S[2].foo(0) == ("version 2 of foo", 2, 0)

expected = ("version 2 of foo", 1, 0)


def observe(f):
    try:
        return f()
    except mx.core.errors.DeletedObjectError:
        return "DeletedObjectError"


results = {
    "old handle .foo(0)": observe(lambda: old.foo(0)),
    "old handle .bar(0)": observe(lambda: old.bar(0)),
    "S[1].foo(0)": observe(lambda: S[1].foo(0)),
    "S[1].bar(0)": observe(lambda: S[1].bar(0)),
}
for k, v in results.items():
    print("%-20s -> %r" % (k, v))

assert all(v == expected or (k.startswith("old") and v == "DeletedObjectError")
           for k, v in results.items()), (
    "C07: after a change to the definitions it was built from, an instance "
    "must never serve a value that does not reflect the current definitions "
    "(S.foo is now %r; S[2].foo(0) == %r), and an earlier handle must raise "
    "DeletedObjectError or denote the re-created instance.  Got: %r"
    % (S.foo.formula, S[2].foo(0), results)
)
print("OK")
