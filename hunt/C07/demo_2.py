"""C07 defect 2: the ``allow_none`` property of a space is not replicated into
the dynamic copies of that space (child spaces of an ItemSpace, and ItemSpaces
built from another base chosen by the parameter formula).  A cells that
returns None evaluates fine in the base and raises NoneReturnedError in the
instance.

Run:  cd /tmp/wth_C07 && PYTHONPATH=/tmp/wth_C07 /venv/bin/python FINDINGS/demo_2.py
"""
import modelx as mx


def value_or_error(f):
    try:
        return ("value", f())
    except Exception as e:
        return ("error", type(e).__name__ + ": " + str(e).splitlines()[1]
                if "\n" in str(e) else repr(e))


m = mx.new_model("Demo2")

# --- (a) child space of the parametrised space -----------------------------
S = m.new_space("S", formula=lambda x: None)
C = S.new_space("C")
C.x = 0                     # so that the base itself can be evaluated as well
C.allow_none = True         # documented, public property of spaces


@mx.defcells(space=C)
def maybe(t):
    return None if t > x else t


base_a = value_or_error(lambda: S.C.maybe(5))
inst_a = value_or_error(lambda: S[1].C.maybe(5))

# --- (b) another base chosen by the parameter formula ----------------------
A = m.new_space("A")
A.allow_none = True
A.x = 0


@mx.defcells(space=A)
def maybe(t):
    return None if t > x else t


P = m.new_space("P", formula=lambda x: {"base": _model.A})
base_b = value_or_error(lambda: A.maybe(5))
inst_b = value_or_error(lambda: P[1].maybe(5))

print("S.C.allow_none   =", S.C.allow_none, "  S[1].C.allow_none =", S[1].C.allow_none)
print("S.C.maybe(5)     ->", base_a)
print("S[1].C.maybe(5)  ->", inst_a)
print("A.maybe(5)       ->", base_b)
print("P[1].maybe(5)    ->", inst_b)

assert base_a == ("value", None) and base_b == ("value", None)
assert inst_a == ("value", None) and inst_b == ("value", None), (
    "C07: every cells of the base must evaluate in the instance exactly as in "
    "the base (child spaces replicated): maybe(5) is None in S.C and in A, "
    "so it must be None in S[1].C and in P[1] too, but got %r and %r"
    % (inst_a, inst_b)
)
print("OK")
