"""C07 defect 4: when re-creating an ItemSpace fails, a handle obtained earlier
is re-attached to the half-built instance.  The handle then neither raises
DeletedObjectError nor denotes a (re-)created instance - S.itemspaces is empty -
and it keeps serving values of definitions that have changed since.

The failure used here is the library's own, designed one: a reference in
'relative' mode whose value is outside the space cannot be bound in an ItemSpace
(ValueError "... is out of 'S'").

Run:  cd /tmp/wth_C07 && PYTHONPATH=/tmp/wth_C07 /venv/bin/python FINDINGS/demo_4.py
"""
import modelx as mx
from modelx.core.errors import DeletedObjectError, FormulaError

m = mx.new_model("Demo4")
T = m.new_space("T")
S = m.new_space("S", formula=lambda x: None)


@mx.defcells(space=S)
def foo(t):
    return ("v1", x, t)


h = S[1]                            # the handle obtained earlier
assert h.foo(0) == ("v1", 1, 0)

S.relref(r=T)                       # an edit of the base: S[1] is discarded
try:
    h.foo(0)
    raise SystemExit("unexpected: the handle should be deleted at this point")
except DeletedObjectError:
    pass                            # fine so far

try:                                # re-creation fails, by design
    S[1]
    raise SystemExit("unexpected: S[1] should fail because of S.r")
except FormulaError as e:
    assert "is out of 'S'" in str(e)

assert dict(S.itemspaces) == {}     # there is no instance S[1]

S.foo.formula = lambda t: ("v2", x, t)      # another edit of the base


def observe(f):
    try:
        return f()
    except DeletedObjectError:
        return "DeletedObjectError"


got0 = observe(lambda: h.foo(0))
got5 = observe(lambda: h.foo(5))    # never computed before
print("S.itemspaces      :", dict(S.itemspaces))
print("old handle        :", observe(lambda: repr(h)))
print("old handle.foo(0) ->", got0)
print("old handle.foo(5) ->", got5)

assert got0 == "DeletedObjectError" and got5 == "DeletedObjectError", (
    "C07: there is no instance S[1] (S.itemspaces == %r), so the earlier handle "
    "must raise DeletedObjectError; and no instance may serve a value that does "
    "not reflect the current definition foo(t) == ('v2', x, t).  "
    "Got h.foo(0) == %r and h.foo(5) == %r" % (dict(S.itemspaces), got0, got5)
)
print("OK")
