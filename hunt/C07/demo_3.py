"""C07 defect 3: a *derived* reference whose (relative) target lies outside the
parametrised space is bound, in the ItemSpace, to the target of the reference
of the base's base instead of the target that the base itself has.

Q            Q2 (derives from Q, overrides X)
|- X()       |- X()
|- B         |- B (derives from Q.B, has a parameter formula)
   |- r = Q.X      r is derived and, being relative, refers to Q2.X
   |- foo()        foo() == r()

Run:  cd /tmp/wth_C07 && PYTHONPATH=/tmp/wth_C07 /venv/bin/python FINDINGS/demo_3.py
"""
import modelx as mx

m = mx.new_model("Demo3")

Q = m.new_space("Q")


@mx.defcells(space=Q)
def X():
    return "Q.X"


B = Q.new_space("B")
B.r = Q.X                   # 'auto' mode reference to a cells of the parent


@mx.defcells(space=B)
def foo():
    return r()


Q2 = m.new_space("Q2", bases=Q)


@mx.defcells(space=Q2)
def X():
    return "Q2.X"


B2 = Q2.new_space("B", bases=B, formula=lambda p: None)

# In the base Q2.B the derived reference r is the relative one: Q2.X
assert B2.r is Q2.X
assert B2.foo() == "Q2.X"

inst = B2[1]
assert inst.p == 1
got_ref = inst.r
got_val = inst.foo()

assert got_ref is Q2.X and got_val == B2.foo(), (
    "C07: every cells of the base Q2.B must evaluate in Q2.B[1] exactly as in "
    "the base: Q2.B.r is %r and Q2.B.foo() == %r, but Q2.B[1].r is %r and "
    "Q2.B[1].foo() == %r" % (B2.r, B2.foo(), got_ref, got_val)
)
print("OK")
