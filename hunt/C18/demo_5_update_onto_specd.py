import modelx as mx, pandas as pd
m = mx.new_model("M")
d1 = pd.DataFrame({"x": [1]}); d2 = pd.DataFrame({"x": [2]})
m.new_pandas("a", "x.csv", d1, file_type="csv")
m.new_pandas("b", "y.csv", d2, file_type="csv")
print(m.iospecs)
try:
    m.update_pandas(d1, d2)
    print("accepted", m.iospecs, m.a is d2, m.b is d2)
except Exception as e:
    print("rejected", type(e).__name__, e)
print([ (s, s.value is d2) for s in m.iospecs])
del m.a
del m.b
print(m.iospecs, mx.core.mxsys.iomanager.ios)
