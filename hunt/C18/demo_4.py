"""C18 demo 4: update_pandas Series -> DataFrame is not read back equal.

The spec remembers that its first value was a Series (squeeze) and never
resets that when the value is updated to a DataFrame, so the saved one-column
DataFrame is read back as a Series.
"""
import pathlib
import tempfile
import modelx as mx
import pandas as pd

tmp = pathlib.Path(tempfile.mkdtemp())
ser = pd.Series([1, 2, 3], name="s")
df = pd.DataFrame({"a": [10, 20, 30]})

m = mx.new_model("M")
m.new_pandas("x", "x.csv", ser, "csv")
m.update_pandas(ser, df)
assert m.x is df and m.get_spec(df).value is df

m.write(tmp / "W")
r = mx.read_model(tmp / "W", name="R")

assert isinstance(r.x, pd.DataFrame) and r.x.equals(df), (
    "C18: on saving, a live spec's value must be written and read back "
    "equal; wrote a DataFrame, read back %s:\n%r" % (type(r.x).__name__, r.x))
