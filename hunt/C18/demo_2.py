"""C18 demo 2: a reference in ANOTHER model kills a model's spec.

m1 owns a spec (with an absolute path) for df.  m2 merely binds the same
DataFrame to a plain reference.  m2 then lists m1's spec as its own, and
deleting m2's reference (or closing m2) deletes m1's spec although m1.x is
still bound to df.
"""
import pathlib
import tempfile
import modelx as mx
import pandas as pd

tmp = pathlib.Path(tempfile.mkdtemp())
df = pd.DataFrame({"a": [1, 2]})

m1 = mx.new_model("M1")
m2 = mx.new_model("M2")
m1.new_pandas("x", tmp / "x.csv", df, "csv")
assert len(m1.iospecs) == 1

m2.y = df            # plain assignment in another model, no spec requested
del m2.y             # ... and removed again (m2.close() has the same effect)

assert m1.x is df
assert len(m1.iospecs) == 1 and m1.iospecs[0].value is df, (
    "C18: m1's IOSpec must live as long as m1.x is bound to its value; "
    "an operation on model M2 must not remove it, but m1.iospecs == %r"
    % m1.iospecs)
