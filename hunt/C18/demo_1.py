"""C18 demo 1: update_pandas onto a value that is already bound elsewhere.

After update_pandas(old, new) the spec's value is `new`.  If `new` was already
bound to another reference of the model, that earlier reference is forgotten,
so deleting the updated name destroys the spec although `new` is still bound.
"""
import modelx as mx
import pandas as pd

df1 = pd.DataFrame({"a": [1, 2]})
df2 = pd.DataFrame({"a": [3, 4]})

m = mx.new_model("M")
m.keep = df2                                   # plain reference to df2
m.new_pandas("x", "x.csv", df1, "csv")         # spec for df1
m.update_pandas(df1, df2)                      # spec now holds df2

assert m.x is df2 and m.keep is df2
assert [s.value is df2 for s in m.iospecs] == [True]

del m.x                                        # one of two references goes

assert m.keep is df2                           # df2 is still bound in the model
specs = m.iospecs
assert len(specs) == 1 and specs[0].value is df2, (
    "C18: the IOSpec must live as long as a reference (m.keep) is bound to "
    "its value, but after `del m.x` m.iospecs == %r" % specs)
