"""C18 demo 3: two specs for one value; the second is invisible and leaks.

new_pandas accepts a value that already has a spec and creates a second spec.
The model only ever reports/removes the first one, so after every reference
is deleted a spec is still alive: its file is written on save and its path
stays taken.
"""
import pathlib
import tempfile
import modelx as mx
import pandas as pd

tmp = pathlib.Path(tempfile.mkdtemp())
df = pd.DataFrame({"a": [1, 2]})

m = mx.new_model("M")
m.new_pandas("x", "a.csv", df, "csv")
m.new_pandas("y", "b.csv", df, "csv")     # accepted: second spec, same value
del m.x
del m.y

assert m.iospecs == []                     # no reference, no spec reported
m.write(tmp / "W")
written = sorted(p.name for p in (tmp / "W").iterdir())
assert "b.csv" not in written, (
    "C18: no reference of the model is bound to the DataFrame any more, so "
    "no IOSpec may be alive, but saving still wrote a spec's file: %r"
    % written)
