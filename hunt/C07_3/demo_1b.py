"""C07 - nested parametrised spaces, two more faces of demo_1.

(a) isolation: A[1].C[7] serves a value of the static space A
(b) a 'relative' reference that is fine in A.C and in A[1].C makes
    A[1].C[7] (and A.C[7]) impossible to build.
"""
import modelx as mx

# ---- (a) ------------------------------------------------------------------
m = mx.new_model("C07demo1b")
A = m.new_space("A", formula="lambda x: None")
A.new_cells("g", formula="lambda t: x * 100 + t")
C = A.new_space("C", formula="lambda y: None")
C.P = A
C.new_cells("h", formula="lambda t: P.g(t) * 2")
A.g[3] = 9                      # an input value of the *static* space A only

assert A[1].g(3) == 103         # instances do not take the input of the base
assert A[1].C.h(3) == 206       # ... so the child of the instance gives 206
got = A[1].C[7].h(3)
assert got == 206, (
    "A[1].C[7].h(3) must stay inside the instance A[1] (206), got %r: "
    "2 * the input value of the static A.g(3)" % got)
