"""C07 - a reference, inside the base's tree, to an ItemSpace (or to a cells
of an ItemSpace) of that tree yields a broken instance.

A.C.r = A.D[3] is a legal reference; A.C.h() evaluates through it in the base.
The instance A[1] is built without complaint, but its child A[1].C is unusable:
every access raises an internal AttributeError ('NoneType' object has no
attribute 'interface'), so the cells of the base do not evaluate in the
instance as they do in the base.
"""
import modelx as mx

m = mx.new_model("C07demo2")
A = m.new_space("A", formula="lambda x: None")
A.new_cells("f", formula="lambda: x")
D = A.new_space("D", formula="lambda n: None")
D.new_cells("d", formula="lambda: n * 10")
C = A.new_space("C")
C.new_cells("h", formula="lambda: r.d() + 1")
C.new_cells("other", formula="lambda: 5")
C.r = D[3]                               # reference to an ItemSpace of the tree

assert C.r is D[3]
assert C.h() == 31                       # the base evaluates

inst = A[1]                              # built "successfully"
assert inst.f() == 1
try:
    other = inst.C.other()               # does not even use r
    value = inst.C.h()
except Exception as e:
    raise AssertionError(
        "A.C.h() == 31 and A.C.other() == 5 in the base, but in the instance "
        "A[1] the child space C is broken: %s: %s" % (type(e).__name__, e))
assert other == 5
assert value == 31                       # D[3].d() is 30 in A and in A[1]
