"""C07 - nested parametrised spaces: a reference of the child space C to an
object of the enclosing instance is re-bound in A[1].C, but not in A[1].C[7].

A[1].C[7] is an instance of A[1].C with only `y` bound in addition, so every
cells of A[1].C must evaluate in A[1].C[7] as it does in A[1].C and must stay
inside the instance A[1].  Instead the reference P (auto mode, A.C -> A)
denotes the *static* space A inside A[1].C[7]: its cells fail on the unbound
parameter x, or serve values of the static space A.
"""
import modelx as mx

m = mx.new_model("C07demo1")
A = m.new_space("A", formula="lambda x: None")
A.new_cells("g", formula="lambda t: x * 100 + t")
C = A.new_space("C", formula="lambda y: None")
C.P = A                                   # auto reference to the parent space
C.new_cells("h", formula="lambda t: P.g(t) * 2")
C.new_cells("hy", formula="lambda t: h(t) + y")

inst = A[1]
assert inst.C.P is inst                   # re-bound to the instance: fine
assert inst.C.h(3) == 206                 # (1*100 + 3) * 2

nested = inst.C[7]                        # instance of A[1].C with y = 7
assert nested.y == 7 and nested.x == 1    # parameters of both levels are bound

# required: the same value as in A[1].C, and hy adds y
try:
    v = nested.h(3)
except Exception as e:                    # NameError: x (evaluated in static A)
    raise AssertionError(
        "A[1].C.h(3) == 206 but A[1].C[7].h(3) raised: %s  (in A[1].C the name "
        "P denotes %r, in A[1].C[7] it denotes %r)"
        % (str(e).splitlines()[1], inst.C.P, nested.P))
assert v == 206, v
assert nested.hy(3) == 213

# required: the same object as in the space that was indexed (A[1].C)
assert nested.P is inst
