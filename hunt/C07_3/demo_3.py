"""C07 - formula choosing another base: the instance takes an unset allow_none
from the parents of the parametrised space, not from the parents of its base.

B is a child of P; P.allow_none = True, so every cells of B may return None.
A[1] is built from the base B ({'base': B}) and must evaluate the cells of B
as B does.  B.f(1) is None in the base, but A[1].f(1) raises
NoneReturnedError.  (The other way round, with allow_none set on A or its
parents only, A[1] accepts a None that B refuses.)
"""
import modelx as mx

m = mx.new_model("C07demo3")
P = m.new_space("P")
P.allow_none = True
B = P.new_space("B")
B.new_cells("f", formula="lambda t: None if t else x")
A = m.new_space("A", formula="lambda x: {'base': _model.P.B}")

assert B.f(1) is None                    # the base accepts None (through P)
assert A[1].bases == [B]
assert A[1].f(0) == 1                    # the instance evaluates B's formula

try:
    got = A[1].f(1)
except Exception as e:
    raise AssertionError(
        "B.f(1) is None in the base B, so A[1].f(1) must be None too; "
        "it raised: %s" % str(e).splitlines()[1])
assert got is None

# the reverse case
m2 = mx.new_model("C07demo3b")
B2 = m2.new_space("B")
B2.new_cells("f", formula="lambda t: None if t else x")
A2 = m2.new_space("A", formula="lambda x: {'base': _model.B}")
A2.allow_none = True
try:
    B2.f(1)
    refused_in_base = False
except Exception:
    refused_in_base = True
assert refused_in_base
try:
    A2[1].f(1)
    refused_in_instance = False
except Exception:
    refused_in_instance = True
assert refused_in_instance, "B refuses None for f(1); A[1], built from B, returned None"
