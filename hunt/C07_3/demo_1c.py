"""C07 - a 'relative' reference from the child space C to a sibling of C is
accepted, works in A.C and in A[1].C, but no instance C[...] can be built."""
import modelx as mx

m = mx.new_model("C07demo1c")
A = m.new_space("A", formula="lambda x: None")
E = A.new_space("E")
E.new_cells("e", formula="lambda t: x + t")
C = A.new_space("C", formula="lambda y: None")
C.relref(S=E)                               # relative reference to the sibling
C.new_cells("h", formula="lambda t: S.e(t) + 1")

assert A[1].C.S is A[1].E                   # fine
assert A[1].C.h(3) == 5                     # fine
try:
    nested = A[1].C[7]
except Exception as e:
    raise AssertionError(
        "A[1].C[7] must be an instance of A[1].C with y bound; "
        "indexing raised: %s" % str(e).splitlines()[1])
assert nested.h(3) == 5
