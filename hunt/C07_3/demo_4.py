"""C07 - argument spellings: `del A[1]` does not find the instance A[1].

With the parameters (x, y=2), A[1], A[1, 2], A(1) and A(x=1) all bind equally
and are one instance.  Deleting with the spelling that returned the instance
raises KeyError; A.clear_at(1) and del A[1, 2] work.
"""
import modelx as mx

m = mx.new_model("C07demo4")
A = m.new_space("A", formula="lambda x, y=2: None")
A.new_cells("f", formula="lambda: (x, y)")

inst = A[1]
assert inst is A[1, 2] is A(1) is A(x=1) is A(1, y=2)
assert inst.f() == (1, 2)
assert list(A.itemspaces) == [(1, 2)]

try:
    del A[1]
except KeyError as e:
    raise AssertionError(
        "A[1] is the instance %r, but `del A[1]` raised KeyError%s: the key is "
        "looked up without the default of y" % (inst, e.args))
assert len(A.itemspaces) == 0
