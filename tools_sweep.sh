#!/bin/bash
# run every registered quick check once on /repo; print one line per check
cd /verif
for c in "$@"; do
  t0=$(date +%s)
  out=$(timeout 900 ./check $c --tier quick 2>&1 | grep -v conda)
  rc=$?
  echo "$c rc=$rc $(( $(date +%s) - t0 ))s :: $(echo "$out" | grep "^VIOLATION\|^KNOWN\|HARNESS\|^$c " | tr '\n' ' ' | cut -c1-400)"
done
