#!/bin/bash
# run the given (default: every registered) quick checks once on /repo; one line per check with the real exit code
cd "$(dirname "$0")"
[ $# -eq 0 ] && set -- C01 C02 C03 C04 C05 C06 C07 C08 C09 C10 C11 C12 C13 C14 C15 C16 C17 C18 C19
for c in "$@"; do
  t0=$(date +%s)
  out=$(timeout 900 ./check $c --tier quick 2>&1); rc=$?
  out=$(echo "$out" | grep -v conda)
  echo "$c rc=$rc $(( $(date +%s) - t0 ))s :: $(echo "$out" | grep "^VIOLATION\|^KNOWN\|HARNESS\|^note\|^$c " | cut -c1-160 | tr '\n' ' ')"
done
