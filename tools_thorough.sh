#!/bin/bash
# usage: tools_thorough.sh <check ids...> : the registered thorough command of each check, summary lines only
for c in "$@"; do
  out=$(VERIF_MAX_SIGS=8 timeout 5400 ./check $c --tier thorough 2>&1 | grep -v conda)
  echo "== $c rc=$?"; echo "$out" | grep "^VIOLATION\|^violation\|HARNESS\|^$c \|note:" | cut -c1-420
done
