#!/bin/bash
# usage: tools_regress.sh <part> <nparts> : every seeded change (part-th of nparts) against the quick check(s) of the property it breaks;
# one line per change: caught / MISSED / patch does not apply (the code it touched has been repaired since)
part=$1; nparts=$2; i=0
for d in /verif/seeded/m*/; do
  sid=$(basename $d); i=$((i+1))
  [ $((i % nparts)) -eq $((part % nparts)) ] || continue
  props=$(python3 -c "
import json,re,sys
m=json.load(open('$d/meta.json'))
ids=re.findall(r'C\d\d', m.get('breaks_property','')+' '+' '.join(x for x in m.get('checks_run',[]) if 'VIOLATION' in x))
seen=[]
[seen.append(x) for x in ids if x not in seen]
print(' '.join(seen[:3]))
" 2>/dev/null)
  [ -z "$props" ] && { echo "$sid ?? no meta"; continue; }
  out=$(./tools_mutants.sh $sid $props 2>&1 | grep -v conda)
  if echo "$out" | grep -q "PATCH DOES NOT APPLY"; then echo "$sid ($props): patch does not apply on HEAD any more"
  elif echo "$out" | grep -q "^VIOLATION"; then echo "$sid ($props): caught by $(echo "$out" | grep -B30 '^VIOLATION' | grep '^== ' | tail -1 | sed 's/.* vs //')"
  else echo "$sid ($props): MISSED"; fi
done
