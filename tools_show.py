#!/venv/bin/python
import json,sys
sys.path.insert(0,'/verif')
from mxsim.props.base import _short
for p in sys.argv[1:]:
    d=json.load(open(p))
    print("==", p, d.get("expect_sig"))
    print("cfg", {k:v for k,v in (d.get('cfg') or {}).items() if k in ('recalc','focus')})
    for s in d['steps']:
        s=_short(s)
        src=s.pop('src',None)
        print("  ", s)
        if src: print("       " + src.replace("\n","\n       "))
    print("detail", json.dumps(d.get('detail'))[:800])
