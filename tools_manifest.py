#!/venv/bin/python
"""Regenerate MANIFEST.json from the table below (kept in one place so it stays valid)."""
import json, subprocess, os
V = "/verif"
BASE = "cd /repo && env -u MODELX_VERIF /venv/bin/python -m pytest -ra -q -p no:cacheprovider --timeout=900 --continue-on-collection-errors"
CHECKS = {
 "C02": ("exploration", "seeded search over edit/evaluation histories, fresh-twin differential oracle",
         "Samples histories (edits of every kind interleaved with evaluations, cache operations, GC, rejected edits) on generated models; at seeded checkpoints every query is answered by the live model and by a model rebuilt from the accepted edits only. Evidence about the histories visited, not a proof.",
         "Trusted: the twin is real modelx too (a defect that makes fresh evaluation itself wrong is C01's business); both-raise answers count as agreement; generator excludes regions listed as known findings / limits in DESIGN.md.", "6/C02"),
}
CHECKS.update({
 "C09": ("exploration", "seeded search over histories, flag-twin (generated flags vs all-cached) + fresh-twin differential oracles",
         "Runs each sampled history in two real worlds at once (the generated cached/uncached assignment with flag flips as steps, and every cells cached) and requires equal answers, empty uncached cells and an execution per top-level call; the flagged world is also checked by the fresh-twin; every run ends with an uncached cells called with unhashable (list) arguments.",
         "Trusted: real modelx in both worlds; histories contain no value assignments; generator exclusions as for C02.", "6/C09"),
 "C11": ("fault_enumeration", "seeded histories with hostile edits (rejection reason x operation) + before==after description + fresh-twin",
         "At seeded points the editor draws from the full list of invalid operations applicable to the current state; every operation that raises is followed by a comparison of the public description (definitions and inputs) before and after, and values are re-checked against the fresh twin; accepted edits are checked for acyclic bases, a C3 order equal to CPython's and valid names.",
         "Trusted: the description reads the public API; calculated values may be discarded by a rejected edit; which exception type is raised is not judged.", "6/C11"),
 "C12": ("exploration", "seeded clash-prone histories, container/namespace invariants after every step",
         "Cells, reference and space names come from one pool of 3-5 names; after every operation, accepted or not, every space must have pairwise disjoint containers, dir()/attribute access/refs view equal to the containers, and the library's own sanity checks must pass.",
         "Trusted: public containers (cells, _own_refs, spaces, refs, dir) are what they claim to be.", "6/C12"),
 "C13": ("exploration", "seeded deletion histories with kept handles, handle/graph invariants + fresh-twin",
         "A handle-keeper takes handles to every kind of object at random times while the editor deletes directly and indirectly; after every step each handle must raise DeletedObjectError if its referent is gone (else raise or be the current object), and no deleted object may appear in the dependency graph or a bases list.",
         "Trusted: RefModel mirror of accepted edits decides which referents are gone; tracegraph nodes are read as (object, key).", "6/C13"),
 "C19": ("exploration", "seeded registry histories over 1-4 colliding models, registry/isolation invariants",
         "Names collide on purpose (including already-suffixed ones); after every registry or in-model operation the registry must map unique current names to the same model objects, closed models must be gone, and the descriptions (and, for unlinked models, the answers) of all other models must be unchanged.",
         "Trusted: mx.get_models() and the public description; backup-suffix numbers are not predicted.", "6/C19"),
})
CHECKS.update({
 "C01": ("exploration", "seeded request schedules, independent tree-walking evaluator + execution log (probe) as oracle",
         "Generated models are queried in seeded orders and spellings; every answer, the probe log of every request and dict(cells) are compared with an independent evaluator over the RefModel (cached: one execution per element ever; uncached: one per call).",
         "Trusted: the evaluator's encoding of the documented name-resolution order; it declines (request skipped, counted) where an object-valued reference enters arithmetic.", "6/C01"),
 "C03": ("exploration", "enumeration of ordered-base DAGs on 3 spaces + seeded inheritance histories, derivation-from-scratch oracle (CPython MRO)",
         "After every step every space is compared with derivation from scratch over the mirrored definitions: bases == CPython's own MRO, member names, derived flags, formula/parameters/cached flag and values of the first definer; derived cells are evaluated against the independent evaluator.",
         "Trusted: CPython's C3; the RefModel mirror of accepted edits; object-valued references are C10's.", "6/C03"),
 "C04": ("exploration", "seeded persistence chains with the fs shim in logging mode, disk-twin (description + answers before write vs after read)",
         "No fault or schedule dimension in the statement: fault-free configuration of the persistence simulator. Models come from seeded edit histories; write/zip -> read -> write chains; description, answers, file listings compared.",
         "Trusted: public description; == on values. Corpus excludes two known findings (mode of literal references, inputs of derived cells).", "6/C04"),
 "C05": ("fault_enumeration", "enumeration of every probe point of a query x exception kinds (probe fault injection), evaluator + retry as oracle",
         "For each sampled (model, query) every probe point of the fault-free evaluation is taken as failure point for a seeded subset of exception kinds, plus forced None returns and two-fault sequences with formula-level handlers; outcome, get_error, held maps, retry values and retry execution log are compared with the evaluator. One run in eight drives recursive chains (self, mutual, through uncached cells) against a configured recursion limit instead: shorter chains evaluate, a raised depth error leaves nothing of the failing chain held, later requests succeed.",
         "Exhaustive per sampled scenario only. Trusted: evaluator (validated by C01).", "6/C05"),
 "C06": ("exploration", "seeded value-edit histories, evaluator's dependency relation as exact oracle, recalculation option toggled",
         "After every assignment/clear the held map and is_input of every cells must equal the evaluator's (edit of x removes exactly x's transitive dependents); evaluations must not re-execute kept values; with recalculation on the discarded leaves are recomputed at once.",
         "After reference changes only 'inputs survive, values right' is asserted. Static spaces only.", "6/C06"),
 "C07": ("exploration", "seeded ItemSpace histories: identity probes, kept handles, evaluator for instance values, fresh-twin",
         "Parametrised spaces with defaults, nested parametrised children, parameter formulas returning references or another base; identity under all spellings, parameters bound, instance values vs evaluator, handles raise-or-current after base edits, fresh-twin freshness.",
         "Trusted: evaluator; RefModel mirror; histories contain no value assignments.", "6/C07"),
 "C08": ("exploration", "seeded histories with injected evaluation faults, exact graph comparison against the evaluator's call edges",
         "After every step preds/succs/precedents of every held element and the node and edge sets of model.tracegraph are compared with the evaluator's call relation (pass-through for uncached cells), static global-name analysis and attribute reads.",
         "Isolated object nodes of uncached cells are tolerated; references read inside uncached callees may appear in precedents. Static spaces.", "6/C08"),
 "C10": ("exploration", "seeded placement histories over mode x target x depth, position-rule oracle by identity, dynamic trees walked",
         "After every accepted edit every defined/derived object reference is compared by identity with the rule for the placements the statement covers, refmode must be preserved, and for an ItemSpace of every parametrised space the whole dynamic tree is walked; half of the runs end with a save (directory or zip) and load, and the loaded model is judged by the same rule.",
         "Targets that are ancestors/siblings in the definer's top-level tree or descendants under static derivation are generated but not judged.", "6/C10"),
 "C14": ("fault_enumeration", "fs-shim fault injection at mutating file-system calls of saves (seeded and exhaustive per save), disk model as oracle",
         "Sequences of saves to one path with edits, loads and restarts; faults: fail-before (ENOSPC/EIO/EACCES), torn write, fail-on-close, EXDEV, transient PermissionError with virtual sleep, a reference value whose pickling / unpickling raises on command; a fifth of the runs enumerate every mutating call of one save; loads are failed by corruption at rest. After every attempt the latest complete generation must load from the path or _BAK1, generations be ordered, zip destinations complete, registry/flags/temp files clean, and a fresh save+load round-trip.",
         "Error-type interruptions only (no kill -9). Real zipfile/pickle/json on tmpfs; the shim decides which calls fail.", "6/C14"),
 "C16": ("exploration", "seeded DAGs x target sets x step sizes, plan-twin (evaluator + probe execution log)",
         "No fault dimension in the statement: generate_actions/execute_actions are compared with direct evaluation by the evaluator: held map untouched by planning, each needed element in exactly one calc block after its callees, targets hold direct values, nothing else left, nothing executed twice.",
         "Static spaces, cached cells.", "6/C16"),
 "C17": ("fault_enumeration", "enumeration of every probe point x exception kinds with earlier handled/unhandled failures, evaluator's executing stack as oracle",
         "Same enumeration as C05; get_traceback() must equal the evaluator's stack at the raise (elements, arguments, source lines), get_error() the injected object, both empty after a later success.",
         "Line numbers not asserted for None-returned/depth errors.", "6/C17"),
})
CHECKS.update({
 "C18": ("exploration", "seeded IOSpec histories over one or two models, identity bookkeeping invariants after every step",
         "new_pandas / new_module on models and spaces with colliding names and file locations (incl. hostile creations), plain assignment of the same value to more names, rebinding, deletion in both orders, update_pandas / update_module, new_space(refs=...), Space.copy, space deletion, add_bases / remove_bases, saving, closing; per model the specs must be exactly the values bound to at least one reference (identity), files unique, get_spec consistent, self-checks pass, rejected creations leave nothing, saved files read back.",
         "csv PandasData and ModuleData; real pandas and files on tmpfs; no faults injected.", "6/C18"),
})
CHECKS.update({
 "C15": ("exploration", "seeded model histories x seeded query schedules, export-twin (model vs exported package in a modelx-free subprocess)",
         "The only schedule dimension of the statement is the order of requests and re-requests (cached vs uncached cells, ItemSpace creation order): models come from seeded edit histories inside the export subset, are exported with Model.export, and the package - imported in a fresh interpreter where importing modelx raises - answers the same queries in another seeded order; values must be equal wherever the model returns a value.",
         "No fault dimension. Outside the subset (not generated): Cells.__getitem__ / Space.parent and other interface API inside formulas, scalar-cells coercion, relative object references together with parameter formulas (documented limitation). Two known findings (scope inside a conditional test; parameter formulas returning references) are excluded from generation and replayed from witnesses.", "6/C15"),
})
NA = {
 "C20": "quantified over inputs only (source-text layouts of a pure function of that text): no schedule, clock, fault, I/O interleaving or history for a simulator to own; covering it means a grammar-based text fuzzer, which is a different technique",
}
ALL = ["C%02d" % i for i in range(1, 21)]
REASON_UNBUILT = "check not built yet in this round (see DESIGN.md build order); nothing is claimed for it"
def main():
    hooks = subprocess.run(["git", "-C", "/repo", "log", "--format=%H", "--grep", "^verif hook"], capture_output=True, text=True).stdout.split()
    man = {
        "version": 1,
        "setup_cmd": "cd /verif && ./check selftest --tier quick",
        "hooks": {"guard": "MODELX_VERIF", "enable": "MODELX_VERIF=1 in the environment before importing modelx (the check script re-executes itself with it)",
                  "baseline_off_cmd": BASE, "source_commits": hooks, "add_only": True},
        "engines": [{"name": "mxsim", "path": "/verif/mxsim", "serves_properties": sorted(CHECKS),
                     "kind_free_text": "deterministic simulation: seeded scheduler of logical clients over one modelx session, fork-per-run, probe/fs-shim fault injection, RefModel + differential twins, ddmin minimiser, replay files"}],
        "checks": [], "not_applicable": [],
        "notes": "All checks: /verif/check <id> --tier quick|thorough; replay: /verif/check <id> --replay <file>. Known findings: /verif/known_findings.json.",
    }
    for pid in ALL:
        if pid in CHECKS:
            level, tech, text, note, ref = CHECKS[pid]
            man["checks"].append({
                "property_id": pid, "quick_cmd": "./check %s --tier quick" % pid, "thorough_cmd": "./check %s --tier thorough" % pid,
                "evidence_file": "/verif/evidence/%s.json" % pid, "replay_cmd_template": "./check %s --replay {path}" % pid,
                "engine": "mxsim", "level_claimed": {"category": level, "text": text, "design_ref": "DESIGN.md §" + ref},
                "level_note": note, "technique": tech})
        else:
            man["not_applicable"].append({"property_id": pid, "reason": NA.get(pid, REASON_UNBUILT)})
    json.dump(man, open(os.path.join(V, "MANIFEST.json"), "w"), indent=1)
    print("checks:", [c["property_id"] for c in man["checks"]])
if __name__ == "__main__":
    main()
