#!/venv/bin/python
"""Regenerate MANIFEST.json from the table below (kept in one place so it stays valid)."""
import json, subprocess, os
V = "/verif"
BASE = "cd /repo && env -u MODELX_VERIF /venv/bin/python -m pytest -ra -q -p no:cacheprovider --timeout=900 --continue-on-collection-errors"
CHECKS = {
 "C02": ("exploration", "seeded search over edit/evaluation histories, fresh-twin differential oracle",
         "Samples histories (edits of every kind interleaved with evaluations, cache operations, GC, rejected edits) on generated models; at seeded checkpoints every query is answered by the live model and by a model rebuilt from the accepted edits only. Evidence about the histories visited, not a proof.",
         "Trusted: the twin is real modelx too (a defect that makes fresh evaluation itself wrong is C01's business); both-raise answers count as agreement; generator excludes regions listed as known findings / limits in DESIGN.md.", "6/C02"),
}
CHECKS.update({
 "C09": ("exploration", "seeded search over histories, flag-twin (generated flags vs all-cached) + fresh-twin differential oracles",
         "Runs each sampled history in two real worlds at once (the generated cached/uncached assignment with flag flips as steps, and every cells cached) and requires equal answers, empty uncached cells and an execution per top-level call; the flagged world is also checked by the fresh-twin.",
         "Trusted: real modelx in both worlds; histories contain no value assignments; generator exclusions as for C02.", "6/C09"),
 "C11": ("fault_enumeration", "seeded histories with hostile edits (rejection reason x operation) + before==after description + fresh-twin",
         "At seeded points the editor draws from the full list of invalid operations applicable to the current state; every operation that raises is followed by a comparison of the public description (definitions and inputs) before and after, and values are re-checked against the fresh twin; accepted edits are checked for acyclic bases, a C3 order equal to CPython's and valid names.",
         "Trusted: the description reads the public API; calculated values may be discarded by a rejected edit; which exception type is raised is not judged.", "6/C11"),
 "C12": ("exploration", "seeded clash-prone histories, container/namespace invariants after every step",
         "Cells, reference and space names come from one pool of 3-5 names; after every operation, accepted or not, every space must have pairwise disjoint containers, dir()/attribute access/refs view equal to the containers, and the library's own sanity checks must pass.",
         "Trusted: public containers (cells, _own_refs, spaces, refs, dir) are what they claim to be.", "6/C12"),
 "C13": ("exploration", "seeded deletion histories with kept handles, handle/graph invariants + fresh-twin",
         "A handle-keeper takes handles to every kind of object at random times while the editor deletes directly and indirectly; after every step each handle must raise DeletedObjectError if its referent is gone (else raise or be the current object), and no deleted object may appear in the dependency graph or a bases list.",
         "Trusted: RefModel mirror of accepted edits decides which referents are gone; tracegraph nodes are read as (object, key).", "6/C13"),
 "C19": ("exploration", "seeded registry histories over 1-4 colliding models, registry/isolation invariants",
         "Names collide on purpose (including already-suffixed ones); after every registry or in-model operation the registry must map unique current names to the same model objects, closed models must be gone, and the descriptions (and, for unlinked models, the answers) of all other models must be unchanged.",
         "Trusted: mx.get_models() and the public description; backup-suffix numbers are not predicted.", "6/C19"),
})
NA = {
}
ALL = ["C%02d" % i for i in range(1, 21)]
REASON_UNBUILT = "check not built yet in this round (see DESIGN.md build order); nothing is claimed for it"
def main():
    hooks = subprocess.run(["git", "-C", "/repo", "log", "--format=%H", "--grep", "^verif hook"], capture_output=True, text=True).stdout.split()
    man = {
        "version": 1,
        "setup_cmd": "cd /verif && ./check selftest --tier quick",
        "hooks": {"guard": "MODELX_VERIF", "enable": "MODELX_VERIF=1 in the environment before importing modelx (the check script re-executes itself with it)",
                  "baseline_off_cmd": BASE, "source_commits": hooks, "add_only": True},
        "engines": [{"name": "mxsim", "path": "/verif/mxsim", "serves_properties": sorted(CHECKS),
                     "kind_free_text": "deterministic simulation: seeded scheduler of logical clients over one modelx session, fork-per-run, probe/fs-shim fault injection, RefModel + differential twins, ddmin minimiser, replay files"}],
        "checks": [], "not_applicable": [],
        "notes": "All checks: /verif/check <id> --tier quick|thorough; replay: /verif/check <id> --replay <file>. Known findings: /verif/known_findings.json.",
    }
    for pid in ALL:
        if pid in CHECKS:
            level, tech, text, note, ref = CHECKS[pid]
            man["checks"].append({
                "property_id": pid, "quick_cmd": "./check %s --tier quick" % pid, "thorough_cmd": "./check %s --tier thorough" % pid,
                "evidence_file": "/verif/evidence/%s.json" % pid, "replay_cmd_template": "./check %s --replay {path}" % pid,
                "engine": "mxsim", "level_claimed": {"category": level, "text": text, "design_ref": "DESIGN.md §" + ref},
                "level_note": note, "technique": tech})
        else:
            man["not_applicable"].append({"property_id": pid, "reason": NA.get(pid, REASON_UNBUILT)})
    json.dump(man, open(os.path.join(V, "MANIFEST.json"), "w"), indent=1)
    print("checks:", [c["property_id"] for c in man["checks"]])
if __name__ == "__main__":
    main()
