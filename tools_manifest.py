#!/venv/bin/python
"""Regenerate MANIFEST.json from the table below (kept in one place so it stays valid)."""
import json, subprocess, os
V = "/verif"
BASE = "cd /repo && env -u MODELX_VERIF /venv/bin/python -m pytest -ra -q -p no:cacheprovider --timeout=900 --continue-on-collection-errors"
CHECKS = {
 "C02": ("exploration", "seeded search over edit/evaluation histories, fresh-twin differential oracle",
         "Samples histories (edits of every kind interleaved with evaluations, cache operations, GC, rejected edits) on generated models; at seeded checkpoints every query is answered by the live model and by a model rebuilt from the accepted edits only. Evidence about the histories visited, not a proof.",
         "Trusted: the twin is real modelx too (a defect that makes fresh evaluation itself wrong is C01's business); both-raise answers count as agreement; generator excludes regions listed as known findings / limits in DESIGN.md.", "6/C02"),
}
NA = {
}
ALL = ["C%02d" % i for i in range(1, 21)]
REASON_UNBUILT = "check not built yet in this round (see DESIGN.md build order); nothing is claimed for it"
def main():
    hooks = subprocess.run(["git", "-C", "/repo", "log", "--format=%H", "--grep", "^verif hook"], capture_output=True, text=True).stdout.split()
    man = {
        "version": 1,
        "setup_cmd": "cd /verif && ./check selftest --tier quick",
        "hooks": {"guard": "MODELX_VERIF", "enable": "MODELX_VERIF=1 in the environment before importing modelx (the check script re-executes itself with it)",
                  "baseline_off_cmd": BASE, "source_commits": hooks, "add_only": True},
        "engines": [{"name": "mxsim", "path": "/verif/mxsim", "serves_properties": sorted(CHECKS),
                     "kind_free_text": "deterministic simulation: seeded scheduler of logical clients over one modelx session, fork-per-run, probe/fs-shim fault injection, RefModel + differential twins, ddmin minimiser, replay files"}],
        "checks": [], "not_applicable": [],
        "notes": "All checks: /verif/check <id> --tier quick|thorough; replay: /verif/check <id> --replay <file>. Known findings: /verif/known_findings.json.",
    }
    for pid in ALL:
        if pid in CHECKS:
            level, tech, text, note, ref = CHECKS[pid]
            man["checks"].append({
                "property_id": pid, "quick_cmd": "./check %s --tier quick" % pid, "thorough_cmd": "./check %s --tier thorough" % pid,
                "evidence_file": "/verif/evidence/%s.json" % pid, "replay_cmd_template": "./check %s --replay {path}" % pid,
                "engine": "mxsim", "level_claimed": {"category": level, "text": text, "design_ref": "DESIGN.md §" + ref},
                "level_note": note, "technique": tech})
        else:
            man["not_applicable"].append({"property_id": pid, "reason": NA.get(pid, REASON_UNBUILT)})
    json.dump(man, open(os.path.join(V, "MANIFEST.json"), "w"), indent=1)
    print("checks:", [c["property_id"] for c in man["checks"]])
if __name__ == "__main__":
    main()
