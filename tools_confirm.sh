#!/bin/bash
# usage: tools_confirm.sh <agent worktree> <seeded-id>
# Confirms an agent's seeded change myself: copies MUTANT/ to /verif/seeded/<id>/, then in a scratch worktree of /repo HEAD:
# demo passes without the patch, fails with it, and the core/serialize/export/io tests give the same result as on HEAD.
set -u
src=$1; sid=$2
mkdir -p /verif/seeded/$sid
cp $src/MUTANT/patch.diff $src/MUTANT/demo.py $src/MUTANT/notes.md /verif/seeded/$sid/ 2>/dev/null
wt=/tmp/conf_$sid
git -C /repo worktree remove --force $wt >/dev/null 2>&1
git -C /repo worktree add -q --detach $wt HEAD || exit 2
cd $wt
PYTHONPATH=$wt /venv/bin/python /verif/seeded/$sid/demo.py >/dev/null 2>&1; without=$?
if ! git apply /verif/seeded/$sid/patch.diff; then echo "$sid PATCH DOES NOT APPLY on HEAD"; cd /; git -C /repo worktree remove --force $wt; exit 2; fi
PYTHONPATH=$wt /venv/bin/python /verif/seeded/$sid/demo.py >/dev/null 2>&1; with=$?
t=$(PYTHONPATH=$wt timeout 1500 /venv/bin/python -m pytest -q -p no:cacheprovider modelx/tests/core modelx/tests/serialize modelx/tests/export modelx/tests/io --deselect modelx/tests/serialize/test_pandas_compat.py 2>&1 | grep -E "passed|failed" | tail -1)
echo "$sid demo_without_exit=$without demo_with_change_exit=$with tests_with_change: $t"
cd /; git -C /repo worktree remove --force $wt
